#!/bin/bash
# usage: run_seed.sh <seed dir name> <check id> [more ids]  : applies the seeded patch to /repo, runs the checks (quick), undoes it
S=/verif/seeded/$1; shift
git -C /repo status --short | grep -v '^??' && { echo "/repo not clean"; exit 2; }
EV=$(mktemp -d /var/tmp/evsave.XXXX); cp -a /verif/evidence/. $EV/   # evidence written while a seed is applied is not kept
git -C /repo apply --whitespace=nowarn $S/patch.diff || git -C /repo apply --3way $S/patch.diff || { echo "patch does not apply"; exit 2; }
for c in "$@"; do
  (cd /verif && timeout 1800 python3-vt -m vt.check $c --tier ${TIER:-quick} 2>&1 | grep -E "VIOLATION|KNOWN|HARNESS|^\[C" | cut -c1-260)
  echo "exit($c)=${PIPESTATUS[0]}"
done
git -C /repo checkout -- . 
cp -a $EV/. /verif/evidence/; rm -rf $EV
git -C /repo status --short | grep -v '^??'
