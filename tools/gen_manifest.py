#!/usr/bin/env python3
"""Regenerates /verif/MANIFEST.json from tools/manifest_src.py (claimed checks) + properties.jsonl."""
import json, os, sys
sys.path.insert(0, os.path.dirname(__file__))
from manifest_src import CHECKS, NOT_APPLICABLE, NOTES
V = os.path.dirname(os.path.dirname(os.path.abspath(__file__)))
props = [json.loads(l) for l in open(os.path.join(V, "properties.jsonl"))]
checks = []
for p in props:
    c = CHECKS.get(p["id"])
    if not c:
        continue
    checks.append({
        "property_id": p["id"],
        "quick_cmd": "python3-vt -m vt.check %s --tier quick" % p["id"],
        "thorough_cmd": "python3-vt -m vt.check %s --tier thorough" % p["id"],
        "evidence_file": "/verif/evidence/%s.json" % p["id"],
        "replay_cmd_template": "python3-vt -m vt.check %s --replay {path}" % p["id"],
        "engine": c.get("engine", "cxx-sym"),
        "level_claimed": {"category": "other", "text": c["text"], "design_ref": c.get("design_ref", "DESIGN.md section 4 / %s" % p["id"])},
        "level_note": c["note"],
        "technique": c["technique"],
    })
na = [{"property_id": p["id"], "reason": NOT_APPLICABLE.get(p["id"], "check not built yet (work in progress)")} for p in props if p["id"] not in CHECKS]
m = {"version": 1, "setup_cmd": "python3-vt -m vt.setup",
     "hooks": {"guard": "STRENGTHS_VERIF", "enable": "no hooks are needed: the checks read /repo's working tree directly (clang AST dump of the engine sources; strengths imported from /repo/src)",
               "baseline_off_cmd": "cd /repo && /venv/bin/python -m pytest -ra -q -p no:cacheprovider --timeout=900 --continue-on-collection-errors",
               "source_commits": [], "add_only": True},
     "engines": [{"name": "cxx-sym", "path": "/verif/vt/cxx", "serves_properties": [k for k, v in CHECKS.items() if "cxx" in v.get("engine", "cxx-sym")],
                  "kind_free_text": "symbolic interpreter over clang's typed JSON AST of the C++ engine (regenerated from /repo on every run) + z3"},
                 {"name": "py-sym", "path": "/verif/vt/pysym.py", "serves_properties": [k for k, v in CHECKS.items() if "py" in v.get("engine", "")],
                  "kind_free_text": "CrossHair 0.0.110 symbolic execution of the unmodified strengths Python modules with a real-number float model + z3"}],
     "checks": checks, "notes": NOTES, "not_applicable": na}
json.dump(m, open(os.path.join(V, "MANIFEST.json"), "w"), indent=1)
print("checks:", [c["property_id"] for c in checks], "not_applicable:", len(na))
