#!/bin/bash
# usage: eval_round.sh <worktree prefix, e.g. /tmp/wt6_> <log prefix> [parallel chains]
# for every worktree <prefix>Cxx holding _seed/patch.diff: confirm the seed, run the quick check of its own property against it
P=$1; L=$2; N=${3:-4}
ls -d ${P}C?? 2>/dev/null | while read wt; do
  c=$(basename $wt | sed 's/.*_//')
  [ -f $wt/_seed/patch.diff ] && [ ! -f ${L}_$c.log ] && echo "$wt $c"
done | xargs -P $N -L 1 bash -c '/verif/tools/eval_seed_wt.sh $0 $1 > '"$L"'_$1.log 2>&1'
for f in ${L}_C??.log; do echo "--- $f"; grep -v "^VIOLATION\|^==\|KNOWN" $f | cut -c1-220; done
