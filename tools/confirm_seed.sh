#!/bin/bash
# usage: confirm_seed.sh <worktree> : independently confirms a seeded change in its scratch worktree
# (tests pass with the change, demo fails with it and passes without it). Prints a one-line summary.
WT=$1
cd $WT || exit 2
build() { g++ -std=c++11 -O1 -fPIC -shared -Isrc/strengths/engines/strengths_engine/src src/strengths/engines/strengths_engine/src/engine.cpp -o src/strengths/engines/strengths_engine/engine.cpython-312-x86_64-linux-gnu.so 2>&1 | tail -3; }
DEMO=$(ls _seed/demo.* | head -1)
rundemo() { if [[ $DEMO == *.py ]]; then PYTHONPATH=$WT/src timeout 300 /venv/bin/python $DEMO >/tmp/demo_out.txt 2>&1; else PYTHONPATH=$WT/src timeout 300 bash $DEMO >/tmp/demo_out.txt 2>&1; fi; echo $?; }
git checkout -q -- src
git apply --whitespace=nowarn _seed/patch.diff || { echo "patch does not apply in $WT"; exit 2; }
build
T1=$(PYTHONPATH=$WT/src /venv/bin/python -m pytest -q -p no:cacheprovider --timeout=900 2>&1 | tail -1)
D1=$(rundemo)
git apply -R --whitespace=nowarn _seed/patch.diff
build
D0=$(rundemo)
git apply --whitespace=nowarn _seed/patch.diff
build
echo "with-change: tests=[$T1] demo_exit=$D1 ; without-change: demo_exit=$D0"
