#!/usr/bin/env python3
"""Prints the markdown table of seeded changes from seeded/*/meta.json (pasted into DESIGN.md section 9)."""
import glob, json, os
rows = []
for d in sorted(glob.glob(os.path.join(os.path.dirname(os.path.dirname(os.path.abspath(__file__))), "seeded", "*"))):
    m = os.path.join(d, "meta.json")
    if not os.path.exists(m):
        continue
    j = json.load(open(m))
    rows.append("| %s | %s | %s | %s | %s |" % (os.path.basename(d), j["property"], j["needs_to_manifest"].replace("|", "/"), ", ".join(j["caught_by"]), j["what_was_run"].split(": ", 2)[-1].replace("|", "/")))
print("| seed | property | needs, in order to manifest | caught by | first result / what was strengthened |")
print("|---|---|---|---|---|")
print("\n".join(rows))
