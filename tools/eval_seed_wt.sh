#!/bin/bash
# usage: eval_seed_wt.sh <worktree> <check ids...> : confirm the seeded change in its worktree, then run the quick checks against that worktree
WT=$1; shift
echo "== confirm $WT"; /verif/tools/confirm_seed.sh $WT
echo "== checks"; /verif/tools/run_seed_wt.sh $WT "$@"
