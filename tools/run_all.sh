#!/bin/bash
# usage: tools/run_all.sh <tier> [ids...] : runs the checks sequentially, prints one summary line per check
TIER=${1:-quick}; shift
IDS=${@:-C01 C02 C03 C04 C05 C06 C07 C08 C09 C10 C11 C12 C13 C14 C15 C16 C17 C18 C19 C20}
for c in $IDS; do
  s=$(date +%s)
  out=$(python3-vt -m vt.check $c --tier $TIER 2>&1); rc=$?
  echo "$c rc=$rc $(( $(date +%s) - s ))s :: $(echo "$out" | grep -E '^\[C' | tail -1)"
  echo "$out" | grep -E "VIOLATION|HARNESS-ERROR|KNOWN" | cut -c1-300
done
