NOTES = ("Solver-based checking of the real code: the C++ engine is executed symbolically from clang's typed AST (cxx-sym, z3), the Python "
         "modules by CrossHair with a stated real-number float model (py-sym). Exit 0 = every explored obligation held (inconclusive ones are listed "
         "in the evidence), 1 = a replayed violation not listed in known_findings.json, 2 = harness error. See DESIGN.md.")
TRUST = ("trusted: clang's AST, the interpreter's semantics for the node kinds that occur (validated concretely against the real .so on every run), "
         "the stub contracts of DESIGN.md 2.1 (uniform in [0,1), Poisson >= 0, clock non-decreasing), z3; doubles are exact reals")
PYTRUST = ("trusted: CrossHair's proxy semantics with Python floats modelled as exact reals (vt/chreal.py), z3, CPython's repr/float, numpy; counterexamples are replayed in plain CPython; "
           "'Confirmed over all paths' = path tree exhausted inside the stated ranges")
CHECKS = {
 "C01": {"engine": "cxx-sym", "technique": "symbolic execution of the engine AST (tag-traced ABI) + z3 QF_NRA: Euler step == x + dt*law for all numeric inputs",
         "text": "bounded proof by SMT: for every catalogue structure one Euler step of the real engine code, reached through the real marshalling layer, equals the reference rate law for EVERY state, rate constant, diffusion coefficient, surface, distance and dt (unsat verdicts in nonlinear real arithmetic); structures are a bounded catalogue",
         "note": TRUST},
 "C02": {"engine": "cxx-sym", "technique": "one inductive symbolic Iterate() per engine from an arbitrary state + z3: c.total unchanged for every left-null vector c",
         "text": "inductive step decided by SMT for all states, parameters and random draws within the catalogue of structures; trajectories of any length follow by induction",
         "note": TRUST + "; Gillespie cut at the propensity tables"},
 "C03": {"engine": "cxx-sym+py-sym", "technique": "symbolic Iterate() with solver-variable chemostat flags (Euler) / enumerated flag maps (stochastic) + z3",
         "text": "for all 2^(S*C) flag maps at once (Euler) and for enumerated maps (stochastic engines) the step leaves flagged entries fixed and moves the others exactly as the law / event prescribes, for every state and parameter",
         "note": TRUST},
 "C07": {"engine": "cxx-sym", "technique": "compositional symbolic execution (tables = master-equation spec; Iterate under the table contract) + z3 linear/nonlinear real arithmetic",
         "text": "stage 1: every propensity entry equals the master-equation value for every state; stage 2: for every uniform draw the applied event is the one whose cumulative interval contains u*a0, changes the state by that channel's vector, t' = t + log(1/u)/a0; tau-leap: every Poisson mean = propensity*dt and counts are applied exactly",
         "note": TRUST + "; statistics of the RNG itself are outside the claim"},
 "C09": {"engine": "cxx-sym", "technique": "symbolic execution of Init + K Iterate calls with solver-variable step lengths, requested times and t_max + z3 (linear real arithmetic with floor)",
         "text": "for every path through up to K iterations the set of recorded steps, their times, the completion flag and the data layout match the sampling contract for all requested times / dt / t_max",
         "note": TRUST + "; K <= 3..6 iterations, <= 3 requested times"},
 "C10": {"engine": "cxx-sym+py-sym", "technique": "exhaustive bounded call sequences at the C ABI executed symbolically (clock and data symbolic) + safety obligations; step count by SMT",
         "text": "all life-cycle-respecting call sequences up to length 3-4 are executed on the engine AST with symbolic data: no double free / use after free, completion is sticky, repeated fetches agree, a new set-up starts from a clean slate; fixed-step runs take floor(t_max/dt)+1 steps; the redistribution loop makes progress from every invariant state",
         "note": TRUST},
 "C11": {"engine": "cxx-sym", "technique": "safety obligations (index in range, no use after free/double free, no uninitialised read, library preconditions) decided by z3 on every path of the ABI scenarios; counterexamples replayed under ASan/UBSan",
         "text": "every vector / buffer access, delete and library precondition met while symbolically executing the scenario sweep is proved in range under the path condition for all data values; a failing obligation is concretised and confirmed in a sanitizer build",
         "note": TRUST + "; shapes <= 3 per axis, int overflow outside the bounds"},
 "C14": {"engine": "cxx-sym", "technique": "symbolic execution of the init-state section of the ABI + loop-body induction and an exists/forall progress query (z3) for the redistribution loop",
         "text": "for all real-valued states: 'none' passes the state through, Poisson mode draws each entry with that entry's amount as mean (zero stays zero), redistribution receives/returns the state in the right layout with the script's seed; the correction loop of the redistribution keeps 'non-negative integers, empty cells stay empty, total off by the remaining correction' (induction from an arbitrary invariant state) and from every such state some draw makes progress (termination with probability 1)",
         "note": TRUST + "; 2-4 cells, one species in the loop-body induction; the redistribution function is replaced by its contract in the ABI legs"},
 "C05": {"engine": "py-sym", "technique": "CrossHair symbolic execution of strengths.units with real-number floats + z3: SI homomorphism per operator / pairing / unit-system pair; error clauses with symbolic dimension vectors",
         "text": "for every magnitude in the stated ranges each operator application on UnitValue agrees with arithmetic on SI values and dimension vectors ('Confirmed over all paths'), and dimensionally meaningless operations raise for every pair of distinct dimension vectors in a cube",
         "note": PYTRUST},
 "C06": {"engine": "py-sym", "technique": "CrossHair + z3 on convert/compute_conversion_factor; composition law with the conversion table replaced by solver variables; concrete table obligations for the 47 symbols",
         "text": "conversion multiplies by prod (src/dst)^e for every magnitude; identity, round trip, intermediate, all target forms, mismatch raises; f(a->b)f(b->c)=f(a->c) proved for arbitrary positive table values; every symbol compared with its SI definition",
         "note": PYTRUST},
 "C08": {"engine": "cxx-sym+py-sym", "technique": "symbolic execution of the loop drivers with Iterate() stubbed by an arbitrary boolean and the clock by arbitrary non-decreasing readings + z3; field-by-field comparison of set-up results after different histories",
         "text": "run/iterate_n/iterate are proved to be plain repetitions of Iterate() on the current simulation for every slicing and clock behaviour; every field of a new set-up is the same function of its arguments whatever ran before; the generator is seeded once from the script's seed; the Euler engine makes no draw",
         "note": TRUST + "; bit-identity of libstdc++'s generators trusted; real build exercised concretely for repeat/slicing identity"},
 "C17": {"engine": "py-sym", "technique": "CrossHair + z3 on RDTrajectory accessors: symbolic (species, sample, cell) and symbolic sample/query times against a quantifier-free reference lookup",
         "text": "all accessors read entry sample*S*C+species*C+cell for every triple of the catalogue shapes; the three lookup policies equal their definition for all strictly increasing sample times and all query times in s/ms/min/h",
         "note": PYTRUST},
 "C18": {"engine": "py-sym", "technique": "CrossHair exhaustive path enumeration over all strings of bounded length on a 14-character alphabet against a reference recogniser of the documented grammar; print-parse with symbolic exponents",
         "text": "every string within the bound either raises or is read with the dimension and SI scale the documented grammar gives; quantity text likewise; print->parse returns the same unit for every exponent in [-9,9]",
         "note": PYTRUST + "; reference recogniser written from the documentation"},
 "C19": {"engine": "py-sym", "technique": "CrossHair + z3 on Reaction / RDNetwork: symbolic coefficients, spacing, orders, dimension vectors, label strings",
         "text": "stoichiometry vectors, orders, print-parse, rate-constant dimensions (orders 0..8), bare-number units, rejection of wrong dimensions, split, equilibrium constant, network validity and label rules hold for every value in the stated ranges",
         "note": PYTRUST},
}
NOT_APPLICABLE = {}
