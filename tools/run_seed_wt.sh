#!/bin/bash
# usage: run_seed_wt.sh <worktree with the seeded change applied> <check id> [more ids]
# runs the quick checks against that scratch copy (STRENGTHS_REPO), evidence/replays go to a throw-away directory; /repo is not touched
WT=$1; shift
OUT=$(mktemp -d /var/tmp/seedrun.XXXX)
for c in "$@"; do
  (cd /verif && STRENGTHS_REPO=$WT VERIF_EVIDENCE_DIR=$OUT/evidence VERIF_REPLAY_DIR=$OUT/replays timeout 2400 python3-vt -m vt.check $c --tier ${TIER:-quick} > $OUT/$c.log 2>&1; echo "exit($c)=$?" >> $OUT/$c.log)
  grep -E "VIOLATION|KNOWN|HARNESS|^\[C|^exit" $OUT/$c.log | cut -c1-300
done
echo "logs: $OUT"
