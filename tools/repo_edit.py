#!/usr/bin/env python3
"""Byte-exact single replacement in a /repo file (the sources use CRLF; keep them that way).
usage: repo_edit.py <file> <old> <new>   (\\n in the arguments matches the file's CRLF)"""
import sys
path, old, new = sys.argv[1], sys.argv[2], sys.argv[3]
data = open(path, "rb").read()
crlf = b"\r\n" in data
o = old.encode().replace(b"\\n", b"\n")
n = new.encode().replace(b"\\n", b"\n")
if crlf:
    o = o.replace(b"\r\n", b"\n").replace(b"\n", b"\r\n")
    n = n.replace(b"\r\n", b"\n").replace(b"\n", b"\r\n")
c = data.count(o)
if c != 1:
    sys.exit("expected exactly one occurrence, found %d" % c)
open(path, "wb").write(data.replace(o, n))
