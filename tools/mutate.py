#!/usr/bin/env python3
"""Mutation analysis OF THE CHECKS (not a check itself): small syntactic changes are applied to a scratch copy of
/repo's sources; mutants that keep the pinned test suite at its baseline are run through the quick checks of the
properties anchored in the mutated file (STRENGTHS_REPO=<copy>, evidence to a throw-away directory). Survivors are
candidates for holes in the checks (or equivalent mutants) and are triaged by hand.

usage: /venv/bin/python tools/mutate.py gen  <out.json> [--py N] [--cxx N] [--seed S]
       /venv/bin/python tools/mutate.py run  <mutants.json> <index> <results dir>
       /venv/bin/python tools/mutate.py report <results dir>
/repo is never modified; every copy lives under /var/tmp/mut and is removed after its run."""
import ast
import copy
import json
import os
import random
import re
import shutil
import subprocess
import sys

REPO = "/repo"
VERIF = "/verif"
PKG = "src/strengths"
ENG = PKG + "/engines/strengths_engine/src"
SO = PKG + "/engines/strengths_engine/engine.cpython-312-x86_64-linux-gnu.so"
PY_FILES = ["coarsegrain.py", "kinetics.py", "librdengine.py", "rdgraphspace.py", "rdgridspace.py", "rdnetwork.py", "rdoutput.py", "rdscript.py", "rdspace.py",
            "rdsystem.py", "simulate.py", "units.py", "value_processing.py", "filepath.py", "text_array_rw.py"]
CXX_FILES = ["Euler3D.hpp", "EulerGraph.hpp", "Gillespie3D.hpp", "GillespieGraph.hpp", "SimulationAlgorithm3DBase.hpp", "SimulationAlgorithmGraphBase.hpp", "TauLeap3D.hpp",
             "TauLeapGraph.hpp", "engine.cpp"]
ORDER = ["C13", "C16", "C07", "C02", "C09", "C12", "C14", "C08", "C11", "C17", "C04", "C15", "C20", "C06", "C19", "C18", "C10", "C05", "C03", "C01"]   # cheap first


def anchors():
    m = {}
    for l in open(os.path.join(VERIF, "properties.jsonl")):
        d = json.loads(l)
        for f in d["anchors"]["files"]:
            m.setdefault(f, []).append(d["id"])
    return m


# ------------------------------------------------------------------------------------------------ python mutants
SWAPS = [{"w", "h", "d"}, {"x", "y", "z"}, {"i", "j"}, {"kf", "kr"}, {"space", "time", "quantity"}, {"substrates", "products"}, {"surface", "distance"}, {"min", "max"}]


def _swap(name):
    for g in SWAPS:
        if name in g:
            return sorted(g - {name})
    return []


class Points(ast.NodeVisitor):
    """enumerates mutation points as (kind, path-to-node, detail)"""

    def __init__(self):
        self.pts = []
        self.infn = 0
        self.inraise = 0

    def visit_FunctionDef(self, n):
        self.infn += 1
        self.generic_visit(n)
        self.infn -= 1

    def visit_Raise(self, n):
        pass        # messages / exception construction are not mutated

    def generic_visit(self, n):
        if self.infn:
            self.consider(n)
        super().generic_visit(n)

    def consider(self, n):
        add = lambda kind, detail=None: self.pts.append((kind, n, detail))
        if isinstance(n, ast.Compare) and len(n.ops) == 1:
            t = {ast.Lt: ast.LtE, ast.LtE: ast.Lt, ast.Gt: ast.GtE, ast.GtE: ast.Gt, ast.Eq: ast.NotEq, ast.NotEq: ast.Eq, ast.In: ast.NotIn, ast.NotIn: ast.In, ast.Is: ast.IsNot, ast.IsNot: ast.Is}.get(type(n.ops[0]))
            if t:
                add("cmp", t)
        elif isinstance(n, ast.BinOp):
            t = {ast.Add: ast.Sub, ast.Sub: ast.Add, ast.Mult: ast.Div, ast.Div: ast.Mult, ast.FloorDiv: ast.Div, ast.Mod: ast.FloorDiv}.get(type(n.op))
            if t and not (isinstance(n.left, ast.Constant) and isinstance(n.left.value, str)) and not (isinstance(n.right, ast.Constant) and isinstance(n.right.value, str)):
                add("binop", t)
        elif isinstance(n, ast.BoolOp):
            add("boolop", ast.Or if isinstance(n.op, ast.And) else ast.And)
        elif isinstance(n, ast.UnaryOp) and isinstance(n.op, ast.Not):
            add("not")
        elif isinstance(n, ast.Constant) and isinstance(n.value, int) and not isinstance(n.value, bool) and -1 <= n.value <= 6:
            add("const", n.value + 1)
            if n.value > 0:
                add("const", n.value - 1)
        elif isinstance(n, ast.Constant) and isinstance(n.value, bool):
            add("const", not n.value)
        elif isinstance(n, ast.Constant) and isinstance(n.value, str) and _swap(n.value):
            for s in _swap(n.value):
                add("strswap", s)
        elif isinstance(n, ast.Name) and isinstance(n.ctx, ast.Load) and _swap(n.id):
            for s in _swap(n.id):
                add("name", s)
        elif isinstance(n, ast.Attribute) and isinstance(n.ctx, ast.Load) and _swap(n.attr):
            for s in _swap(n.attr):
                add("attr", s)
        elif isinstance(n, ast.Call):
            if isinstance(n.func, ast.Attribute) and n.func.attr in ("copy", "convert", "deepcopy") :
                add("dropcall")             # x.copy() -> x ; x.convert(u) -> x
            if len(n.args) >= 2 and not n.keywords and ast.dump(n.args[0]) != ast.dump(n.args[1]):
                add("argswap")
        elif isinstance(n, ast.If) and not n.orelse and len(n.body) == 1 and isinstance(n.body[0], (ast.Raise,)):
            add("dropcheck")                # if cond: raise ...  -> removed
        elif isinstance(n, ast.AugAssign):
            add("aug")                      # x += y -> x = y
        elif isinstance(n, ast.Subscript) and isinstance(n.ctx, ast.Load) and isinstance(n.slice, (ast.Name, ast.BinOp)):
            add("index")                    # a[i] -> a[i+1]


def py_points(path):
    src = open(path, encoding="utf-8").read()
    tree = ast.parse(src)
    p = Points()
    p.visit(tree)
    out = []
    for k, (kind, node, detail) in enumerate(p.pts):
        out.append({"k": k, "kind": kind, "line": getattr(node, "lineno", 0), "detail": detail.__name__ if isinstance(detail, type) else detail})
    return out


def py_apply(path, k):
    src = open(path, encoding="utf-8").read()
    tree = ast.parse(src)
    p = Points()
    p.visit(tree)
    kind, node, detail = p.pts[k]
    if kind == "cmp":
        node.ops = [detail()]
    elif kind == "binop":
        node.op = detail()
    elif kind == "boolop":
        node.op = detail()
    elif kind == "const":
        node.value = detail
    elif kind == "strswap":
        node.value = detail
    elif kind == "name":
        node.id = detail
    elif kind == "attr":
        node.attr = detail
    elif kind == "argswap":
        node.args[0], node.args[1] = node.args[1], node.args[0]
    elif kind == "aug":
        new = ast.Assign(targets=[copy.deepcopy(node.target)], value=node.value)
        for t in ast.walk(new.targets[0]):
            if hasattr(t, "ctx"):
                t.ctx = ast.Store()
        _replace(tree, node, ast.copy_location(new, node))
    elif kind == "not":
        _replace(tree, node, node.operand)
    elif kind == "dropcall":
        _replace(tree, node, node.func.value)
    elif kind == "dropcheck":
        _replace(tree, node, ast.copy_location(ast.Pass(), node))
    elif kind == "index":
        node.slice = ast.BinOp(left=node.slice, op=ast.Add(), right=ast.Constant(1))
    ast.fix_missing_locations(tree)
    return ast.unparse(tree) + "\n"


def _replace(tree, old, new):
    for parent in ast.walk(tree):
        for f, v in ast.iter_fields(parent):
            if v is old:
                setattr(parent, f, new)
                return
            if isinstance(v, list):
                for i, x in enumerate(v):
                    if x is old:
                        v[i] = new
                        return
    raise RuntimeError("node not found")


# ------------------------------------------------------------------------------------------------ C++ mutants
CXX_RULES = [(r"<=", "<"), (r"(?<![<>=!-])<(?![<=])", "<="), (r">=", ">"), (r"==", "!="), (r"!=", "=="), (r"&&", "||"), (r"\|\|", "&&"), (r"\+\+", "--"), (r"\+=", "-="), (r"-=", "+="),
             (r"(?<![+\-=e])\+(?![+=])", "-"), (r"(?<![-=e(,*/ ])-(?![-=>])", "+"), (r"\*(?![=/])", "/"), (r"\bn_species\b", "n_reactions"), (r"\bn_reactions\b", "n_species"),
             (r"\bn_meshes\b", "n_species"), (r"\bw\b", "h"), (r"\bh\b", "d"), (r"\bd\b", "w"), (r"\b0\b", "1"), (r"\b1\b", "0"), (r"\b1\b", "2"), (r"\bi\b", "j"), (r"\bj\b", "i"),
             (r"\bmesh_chstt\[[^\]]*\]", "0"), (r"\btrue\b", "false"), (r"\bfalse\b", "true"), (r"\bcontinue;", ";"), (r"\bbreak;", ";")]


def cxx_points(path):
    out = []
    lines = open(path, "rb").read().decode("utf-8", "replace").split("\n")
    incomment = False
    for ln, line in enumerate(lines):
        code = line.split("//")[0]
        if "/*" in code:
            incomment = True
        if incomment:
            if "*/" in line:
                incomment = False
            continue
        st = code.strip()
        if not st or st.startswith("#") or "std::vector<" in st and st.endswith(";") and "=" not in st or '"' in st or "virtual" in st or st.startswith(("class ", "public", "private", "protected")):
            continue
        for r, (pat, rep) in enumerate(CXX_RULES):
            for m in re.finditer(pat, code):
                out.append({"line": ln, "rule": r, "start": m.start(), "end": m.end(), "rep": rep, "kind": "cxx:" + pat})
    return out


def cxx_apply(path, pt):
    raw = open(path, "rb").read().decode("utf-8", "replace")
    lines = raw.split("\n")
    l = lines[pt["line"]]
    lines[pt["line"]] = l[:pt["start"]] + pt["rep"] + l[pt["end"]:]
    return "\n".join(lines)


# ------------------------------------------------------------------------------------------------ driver
def gen(out, n_py, n_cxx, seed):
    rnd = random.Random(seed)
    muts = []
    allpy = []
    for f in PY_FILES:
        for p in py_points(os.path.join(REPO, PKG, f)):
            allpy.append(dict(p, file=PKG + "/" + f, lang="py"))
    rnd.shuffle(allpy)
    muts += allpy[:n_py]
    allcx = []
    for f in CXX_FILES:
        for p in cxx_points(os.path.join(REPO, ENG, f)):
            allcx.append(dict(p, file=ENG + "/" + f, lang="cxx"))
    rnd.shuffle(allcx)
    muts += allcx[:n_cxx]
    json.dump({"seed": seed, "n_points_py": len(allpy), "n_points_cxx": len(allcx), "mutants": muts}, open(out, "w"), indent=0)
    print("points: py %d, c++ %d; sampled %d" % (len(allpy), len(allcx), len(muts)))


def run(mfile, idx, resdir):
    m = json.load(open(mfile))["mutants"][idx]
    os.makedirs(resdir, exist_ok=True)
    if os.path.exists(os.path.join(resdir, "%04d.json" % idx)) or os.path.exists("/var/tmp/mut/%d" % idx):
        return {"status": "already done / in progress"}
    res = dict(m, index=idx)
    wd = "/var/tmp/mut/%d" % idx
    shutil.rmtree(wd, ignore_errors=True)
    os.makedirs(wd)
    try:
        shutil.copytree(os.path.join(REPO, "src"), os.path.join(wd, "src"), ignore=shutil.ignore_patterns("__pycache__", "*.egg-info"))
        shutil.copytree(os.path.join(REPO, "tests"), os.path.join(wd, "tests"), ignore=shutil.ignore_patterns("__pycache__"))
        target = os.path.join(wd, m["file"])
        try:
            text = py_apply(target, m["k"]) if m["lang"] == "py" else cxx_apply(target, m)
        except Exception as e:  # noqa
            res["status"] = "not-applicable: %s" % e
            return res
        before = open(target, "rb").read().decode("utf-8", "replace").split("\n")
        open(target, "w", encoding="utf-8", newline="").write(text)
        res["line_text"] = before[m["line"] - (1 if m["lang"] == "py" else 0)].strip()[:160] if 0 <= m["line"] - (1 if m["lang"] == "py" else 0) < len(before) else ""
        if m["lang"] == "cxx":
            res["new_line_text"] = text.split("\n")[m["line"]].strip()[:160]
            r = subprocess.run(["g++", "-std=c++11", "-O1", "-fPIC", "-shared", "-I" + os.path.join(wd, ENG), os.path.join(wd, ENG, "engine.cpp"), "-o", os.path.join(wd, SO)], capture_output=True, text=True)
            if r.returncode != 0:
                res["status"] = "does-not-compile"
                return res
        env = dict(os.environ, PYTHONPATH=os.path.join(wd, "src"))
        try:
            r = subprocess.run(["/venv/bin/python", "-m", "pytest", "-q", "-p", "no:cacheprovider", "--timeout=120", "-x", "--deselect", "tests/test_loadrds.py", "--deselect",
                                "tests/test_simulate.py::test_save_output_load_output"], cwd=wd, env=env, capture_output=True, text=True, timeout=900)
            tail = (r.stdout.strip().splitlines() or [""])[-1]
        except subprocess.TimeoutExpired:
            tail = "timeout"
        res["tests"] = tail
        if " passed" not in tail or "failed" in tail or "error" in tail:
            res["status"] = "killed-by-tests"
            return res
        props = [p for p in ORDER if p in anchors().get(m["file"], [])]
        res["checks"] = {}
        res["status"] = "SURVIVED"
        for p in props:
            ev = os.path.join(wd, "ev")
            env2 = dict(os.environ, STRENGTHS_REPO=wd, VERIF_EVIDENCE_DIR=os.path.join(ev, "evidence"), VERIF_REPLAY_DIR=os.path.join(ev, "replays"), VERIF_PROCS="6")
            env2.pop("PYTHONPATH", None)
            try:
                r = subprocess.run(["python3-vt", "-m", "vt.check", p, "--tier", "quick"], cwd=VERIF, env=env2, capture_output=True, text=True, timeout=2400)
                rc = r.returncode
                line = [l for l in r.stdout.splitlines() if l.startswith("[" + p)]
                res["checks"][p] = {"rc": rc, "summary": line[-1][:200] if line else r.stdout[-200:]}
            except subprocess.TimeoutExpired:
                rc = 3
                res["checks"][p] = {"rc": 3, "summary": "timeout"}
            if rc == 1:
                res["status"] = "caught by " + p
                break
            if rc == 2 and res["status"] == "SURVIVED":
                res["status"] = "flagged (harness error) by " + p
        return res
    finally:
        if "status" in res:
            json.dump(res, open(os.path.join(resdir, "%04d.json" % idx), "w"), indent=1)
        shutil.rmtree(wd, ignore_errors=True)


def report(resdir):
    import collections
    c = collections.Counter()
    surv = []
    for f in sorted(os.listdir(resdir)):
        r = json.load(open(os.path.join(resdir, f)))
        s = r.get("status", "?")
        c[s.split(" by ")[0] if " by " in s else s.split(":")[0]] += 1
        if s == "SURVIVED" or s.startswith("flagged"):
            surv.append(r)
    print(dict(c))
    for r in surv:
        print("%04d %-9s %s:%s  %s  [%s]  %s" % (r["index"], r["status"][:9], r["file"].split("/")[-1], r["line"], r["kind"], r.get("line_text", "")[:90], r.get("new_line_text", r.get("detail", ""))))


if __name__ == "__main__":
    a = sys.argv
    if a[1] == "gen":
        n_py = int(a[a.index("--py") + 1]) if "--py" in a else 300
        n_cx = int(a[a.index("--cxx") + 1]) if "--cxx" in a else 150
        seed = int(a[a.index("--seed") + 1]) if "--seed" in a else 1
        gen(a[2], n_py, n_cx, seed)
    elif a[1] == "run":
        r = run(a[2], int(a[3]), a[4])
        print(a[3], r.get("status"))
    elif a[1] == "report":
        report(a[2])
