"""python3-vt -m vt.check <ID> --replay <path>: re-runs a stored counterexample where the stored case is self-contained."""
import json
import os
import subprocess
import sys

from .common import scratch


def replay_file(path):
    j = json.load(open(path))
    case = j.get("case") or {}
    print("property:", j.get("property"))
    print("signature:", j.get("signature"))
    print("what:", j.get("what"))
    if isinstance(case, dict) and case.get("module") and case.get("function"):
        from . import pysym
        mod = case["module"]
        if mod.startswith("hgen_"):
            # generated harness: regenerate it through the property module
            import importlib
            pm = importlib.import_module("vt.props." + j["property"])
            gen = getattr(pm, "gen", None)
            if gen is None and os.path.exists(os.path.join(os.path.dirname(__file__), "props", j["property"] + "_py.py")):
                gen = getattr(importlib.import_module("vt.props.%s_py" % j["property"]), "gen", None)
            if gen is None:
                print("cannot regenerate harness module", mod)
                return 2
            text, _ = gen(os.environ.get("VERIF_TIER", "quick"), int(os.environ.get("VERIF_SEED", "0") or 0))
            pysym.write_module(mod, text)
        args = case["args"]
        argtext = args if isinstance(args, str) else ", ".join("%s=%r" % kv for kv in args.items())
        ok, txt = pysym.replay(mod, case["function"], argtext)
        print("replay:", txt)
        return 1 if ok else 0
    if isinstance(case, dict) and case.get("scenario_file"):
        from . import sandriver
        drv = sandriver.build_driver()
        p = os.path.join(scratch(), "replay_scn.txt")
        open(p, "w").write(case["scenario_file"])
        r = subprocess.run([drv, p], capture_output=True, text=True, timeout=120)
        bad = r.returncode != 0 or "AddressSanitizer" in r.stderr or "runtime error" in r.stderr or "Assertion" in r.stderr
        print("sanitizer build:", "error reproduced" if bad else "clean")
        print(r.stderr[-800:])
        return 1 if bad else 0
    print("case:", json.dumps(case, indent=1)[:3000])
    print("(this case is replayed by re-running the check itself: python3-vt -m vt.check %s)" % j.get("property"))
    return 0
