"""CLI: python3-vt -m vt.check <ID> [--tier quick|thorough]   (cwd = /verif)"""
import argparse
import importlib
import os
import sys

from .common import run_property, seed_from_env, tier_from_env, SRC


def main():
    ap = argparse.ArgumentParser()
    ap.add_argument("pid")
    ap.add_argument("--tier", default=None)
    ap.add_argument("--replay", default=None)
    a = ap.parse_args()
    tier = a.tier or tier_from_env()
    os.environ["VERIF_TIER"] = tier
    if SRC not in sys.path:
        sys.path.insert(0, SRC)
    os.environ["PYTHONPATH"] = SRC + os.pathsep + os.environ.get("PYTHONPATH", "")
    if a.replay:
        from .replay import replay_file
        sys.exit(replay_file(a.replay))
    mod = importlib.import_module("vt.props." + a.pid)
    sys.exit(run_property(a.pid, lambda rec: mod.run(rec), tier, seed_from_env()))


if __name__ == "__main__":
    main()
