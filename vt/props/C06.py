"""C06 Unit conversion is exact SI scaling and composes."""
import random
import sys

from ..common import SRC
from .. import pysym

DIMS = [(1, 0, 0), (0, 1, 0), (0, 0, 1), (2, -1, 0), (-3, 0, 1), (3, -1, -1), (0, 0, 0), (-2, 2, 1)]


def table_obligations(rec):
    if SRC not in sys.path:
        sys.path.insert(0, SRC)
    sys.path.insert(0, __import__("os").path.dirname(__import__("os").path.dirname(__import__("os").path.dirname(__file__))))
    from harness.c06lib import si_spec, derived_spec, rel
    from strengths import units as U
    spec = si_spec()
    n = 0
    for kind in ("space", "time", "quantity"):
        tab = U._units_conversion_dict[kind]
        for sym, val in spec[kind].items():
            ok = sym in tab and rel(tab[sym], val)
            rec.oblig("table: %s has its SI meaning (%g)" % (sym, val), "holds" if ok else "violated", tab.get(sym), 0, "conversion table")
            n += 1
            if not ok:
                rec.violation("c06-table:%s" % sym, "unit symbol %s has scale %r instead of its SI value %r" % (sym, tab.get(sym), val), {"symbol": sym})
        extra = set(tab) - set(spec[kind])
        if extra:
            rec.notes.append("conversion table has %s symbols beyond the SI specification used here (not checked): %s" % (kind, sorted(extra)))
        labels = set(U._units_labels_dict[kind])
        rec.oblig("every accepted %s label has a scale" % kind, "holds" if labels == set(tab) else "violated", sorted(labels ^ set(tab)), 0, "conversion table")
    lit, mol = derived_spec()
    for sym, m3 in lit.items():
        u = U.parse_units(sym)
        scale = U._units_conversion_dict["space"][u.sys["space"]] ** 3
        ok = (u.dim["space"], u.dim["time"], u.dim["quantity"]) == (3, 0, 0) and rel(scale, m3)
        rec.oblig("litre family: %s = %g m3" % (sym, m3), "holds" if ok else "violated", str(u), 0, "derived symbols")
        if not ok:
            rec.violation("c06-derived:%s" % sym, "%s is read as %s (scale %r m3, expected %r)" % (sym, u, scale, m3), {"symbol": sym})
    for sym, per_m3 in mol.items():
        u = U.parse_units(sym)
        scale = U._units_conversion_dict["quantity"][u.sys["quantity"]] / U._units_conversion_dict["space"][u.sys["space"]] ** 3
        ok = (u.dim["space"], u.dim["time"], u.dim["quantity"]) == (-3, 0, 1) and rel(scale, per_m3)
        rec.oblig("molar family: %s = %g molecules/m3" % (sym, per_m3), "holds" if ok else "violated", str(u), 0, "derived symbols")
        if not ok:
            rec.violation("c06-derived:%s" % sym, "%s is read as %s (scale %r /m3, expected %r)" % (sym, u, scale, per_m3), {"symbol": sym})


def gen(tier, seed):
    rnd = random.Random(seed)
    L = ["from harness.c06lib import *", ""]
    conds = []
    S = "ABCDEFGHIJK"
    triples = [("A", "B", "C"), ("D", "E", "F"), ("G", "H", "I"), ("J", "K", "A"), ("C", "J", "D")]
    if tier != "quick":
        triples += [tuple(rnd.sample(S, 3)) for _ in range(10)]
    k = 0

    def add(fn, sig, body, pre, what, args="a: float", timeout=None, viol=None):
        fn = "h_" + fn
        L.extend(["def %s(%s) -> bool:" % (fn, args), '    """'] + ["    " + p for p in pre] + ["    post: _", '    """', "    return " + body, ""])
        c = {"fn": fn, "what": what, "sig": sig, "structure": "units"}
        if timeout:
            c["timeout"] = timeout
        if viol:
            c["viol"] = viol
        conds.append(c)
    for (u1, u2, u3) in triples:
        for d in (DIMS if tier != "quick" else [DIMS[(k + j) % len(DIMS)] for j in range(3)]):
            k += 1
            add("conv_si_%d" % k, "c06-factor", "conv_si(a, %r, %r, %r)" % (u1, u2, d), ["pre: -1e9 < a < 1e9"],
                "convert %s->%s multiplies by prod (src/dst)^e, keeps dimension %s" % (u1, u2, d))
            add("conv_rt_%d" % k, "c06-roundtrip", "conv_roundtrip(a, %r, %r, %r, %r)" % (u1, u2, u3, d), ["pre: 1e-6 < a < 1e9"],
                "there-and-back and via-intermediate agree with the direct conversion (%s,%s,%s dim %s)" % (u1, u2, u3, d))
        add("conv_id_%s" % u1, "c06-identity", "conv_identity(a, %r, %r)" % (u1, DIMS[k % len(DIMS)]), ["pre: -1e9 < a < 1e9"], "conversion to the same system is the identity (%s)" % u1)
        add("conv_forms_%s%s" % (u1, u2), "c06-forms", "conv_forms(a, %r, %r, %r)" % (u1, u2, DIMS[(k + 1) % len(DIMS)]), ["pre: 1e-6 < a < 1e9"],
            "every accepted target form (Units, UnitValue, UnitsSystem, dict, text) gives the same result (%s->%s)" % (u1, u2))
    # every exponent in [-4,4], one coordinate at a time
    for coord in range(3):
        for e in ((-4, -1, 2, 3) if tier == "quick" else range(-4, 5)):
            d = [0, 0, 0]
            d[coord] = e
            add("conv_exp_%d_%s" % (coord, str(e).replace("-", "m")), "c06-factor", "conv_si(a, 'B', 'C', %r)" % (tuple(d),), ["pre: 1e-6 < a < 1e6"],
                "conversion factor for exponent %d on coordinate %d" % (e, coord))
    add("conv_mismatch", "c06-mismatch", "conv_mismatch(a, 'A', 'B', (s1, t1, q1), (s2, t2, q2))",
        ["pre: 1e-3 < a < 1e3", "pre: -2 <= s1 <= 2 and -2 <= t1 <= 2 and -2 <= q1 <= 2 and -2 <= s2 <= 2 and -2 <= t2 <= 2 and -2 <= q2 <= 2", "pre: (s1, t1, q1) != (s2, t2, q2)"],
        "conversion to a different dimension raises for Units / UnitValue targets (both dimension vectors symbolic in [-2,2]^3)", args="a: float, s1: int, t1: int, q1: int, s2: int, t2: int, q2: int", timeout=120)
    for (ua, ub) in (("A", "A"), ("B", "B"), ("G", "A")):
        add("conv_mismatch_%s%s" % (ua, ub), "c06-mismatch", "conv_mismatch(a, %r, %r, (s1, t1, q1), (s2, t2, q2))" % (ua, ub),
            ["pre: 1e-3 < a < 1e3", "pre: -2 <= s1 <= 2 and -2 <= t1 <= 2 and -2 <= q1 <= 2 and -2 <= s2 <= 2 and -2 <= t2 <= 2 and -2 <= q2 <= 2", "pre: (s1, t1, q1) != (s2, t2, q2)"],
            "conversion to a different dimension raises for Units / UnitValue targets, source system %s and target system %s (same system: no scaling is needed, the dimension must still be checked)" % (ua, ub),
            args="a: float, s1: int, t1: int, q1: int, s2: int, t2: int, q2: int", timeout=120, viol="conversion to a different dimension returns a value when source and target use the same unit system")
    for k2, (d, d2) in enumerate([((1, 0, 0), (0, 1, 0)), ((2, -1, 0), (0, 0, 1)), ((0, 1, 0), (-3, 0, 1))]):
        add("conv_mismatch_text_same_%d" % k2, "c06-mismatch", "conv_mismatch_text(a, 'A', 'A', %r, %r) and conv_mismatch_text(a, 'B', 'B', %r, %r)" % (d, d2, d, d2), ["pre: 1e-3 < a < 1e3"],
            "conversion to unit TEXT of a different dimension raises when the text names the source's own units (%s -> %s), also through the UnitValue constructor" % (d, d2),
            viol="conversion to a different dimension returns a value when source and target use the same unit system")
    for k2, (d, d2) in enumerate([((1, 0, 0), (0, 1, 0)), ((2, -1, 0), (2, -1, 1)), ((0, 0, 1), (-3, 0, 1)), ((1, -1, 0), (1, 1, 0)), ((0, 0, 0), (0, 0, 1))]):
        add("conv_mismatch_text_%d" % k2, "c06-mismatch", "conv_mismatch_text(a, 'A', 'B', %r, %r)" % (d, d2), ["pre: 1e-3 < a < 1e3"],
            "conversion to unit TEXT of a different dimension raises (%s -> %s)" % (d, d2))
    for kind in ("space", "time", "quantity"):
        for e in ((1, 2, -1, -3) if tier == "quick" else range(-4, 5)):
            add("compose_%s_%s" % (kind, str(e).replace("-", "m")), "c06-composition", "composition(%r, %d, xa, xb, xc)" % (kind, e),
                ["pre: 1e-6 < xa < 1e6 and 1e-6 < xb < 1e6 and 1e-6 < xc < 1e6"],
                "f(a->b) f(b->c) = f(a->c), f(a->a) = 1, f(a->b) f(b->a) = 1 for ARBITRARY positive %s table values, exponent %d" % (kind, e),
                args="xa: float, xb: float, xc: float", timeout=120)
    for k3, form in enumerate(("sys", "units", "uv", "dict", "str")):
        u1, u2 = [("A", "B"), ("C", "D"), ("G", "J"), ("B", "K"), ("E", "H")][k3]
        add("array_forms_%s" % form, "c06-array-forms", "array_convert_forms(ia, ib, %r, %r, %r, %r)" % (u1, u2, DIMS[(k3 + 3) % len(DIMS)] if DIMS[(k3 + 3) % len(DIMS)] != (0, 0, 0) else (1, -1, 0), form),
            ["pre: 0 <= ia <= 3 and 0 <= ib <= 3"], "UnitArray.convert with a %s target agrees element-wise with the scalar conversion (lattice values incl. negative and zero)" % form, args="ia: int, ib: int", timeout=120)
    add("all_systems", "c06-all-systems", "all_systems(si_, ti, qi, di)", ["pre: 0 <= si_ <= 10 and 0 <= ti <= 9 and 0 <= qi <= 9 and 0 <= di <= 5"],
        "ALL 1100 unit systems x 6 dimension vectors, visited one after the other in one process: conversion to / from the default system equals the SI-table factor (no dependence on earlier conversions)",
        args="si_: int, ti: int, qi: int, di: int", viol="a conversion factor is wrong for some unit system, or depends on which conversions ran earlier in the process")
    add("mutated_system", "c06-mutated-system", "mutated_system(ia, ib, fld, how, di)", ["pre: 0 <= ia <= 10 and 0 <= ib <= 10 and 0 <= fld <= 2 and 0 <= how <= 3 and 0 <= di <= 5"],
        "a UnitsSystem object that was already used in conversions and is then modified (by attribute, by item, on a copy, through the Units that carries it) converts exactly like a freshly built system "
        "with the same content: 11 x 11 catalogue systems x 3 fields x 4 ways x 6 dimension vectors", args="ia: int, ib: int, fld: int, how: int, di: int",
        viol="a conversion depends on what the units-system object held when it was FIRST used (stale derived data): after an edit it still converts with the old unit")
    add("mixed_symbols", "c06-mixed-symbols", "mixed_symbols(k, form)", ["pre: 0 <= k <= 8 and 0 <= form <= 2"],
        "unit text in which two symbols disagree on the unit of one base (mM.mL, µM.µm/s, M-1.cm-1, m/s/min, ...), as units of a quantity, inside quantity text and as a conversion target: either refused, or read with the SI value "
        "its symbols define - never with one symbol silently taking another one's unit", "k: int, form: int",
        viol="a unit text mixing two units of one base is accepted and read with a wrong SI value (a symbol takes the meaning of another one)")
    add("array_convert_3", "c06-array", "array_convert((x, y, z), 'B', 'D', (2, -1, 1))", ["pre: 1e-3 < x < 1e3 and 1e-3 < y < 1e3 and 1e-3 < z < 1e3"],
        "UnitArray.convert agrees element-wise with the scalar path (magnitudes realised at the numpy boundary)", args="x: float, y: float, z: float", timeout=20)
    return "\n".join(L), conds


def run(rec):
    rec.assume("Python floats are exact reals (CrossHair real-float driver); SI agreement asserted to 1e-9 relative because the module's constants are decimal floats; composition laws are proved EXACTLY for arbitrary positive table values, one base kind and one exponent at a time")
    rec.assume("unit systems from a catalogue covering all 31 base symbols; the 47 symbol meanings are compared with the SI definitions as concrete table obligations")
    rec.assume("UnitArray: magnitudes are realised at the numpy boundary (solver-chosen values per path, not exhaustive)")
    for fn in ("compute_conversion_factor", "convert_value", "convert_unitvalue", "UnitValue.convert", "UnitArray.convert", "parse_units (derived symbols)", "_units_conversion_dict"):
        rec.encoded(fn)
    table_obligations(rec)
    text, conds = gen(rec.tier, rec.seed)
    mod = pysym.write_module("hgen_C06", text)
    pysym.run_auto(rec, mod, conds, default_timeout=60 if rec.tier == "quick" else 180)
