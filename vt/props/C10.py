"""C10 Simulations terminate, and the engine lifecycle is crash-free and isolated."""
import itertools

import z3

from .. import catalogue
from ..safetylegs import sym_sequence
from ..samplinglegs import check_sampling
from ..cxx.engine import ast_info, program, is_sym

ALPHA = ["iterate", "iterate_n:sym", "run:1", "sample", "progress", "fetch2", "finalize", "init"]


def sequences(L):
    """All call sequences of length <= L (after the initial set-up) that respect the documented life cycle:
    after a finalize only finalize or a new set-up may follow."""
    out = []
    for n in range(1, L + 1):
        for seq in itertools.product(ALPHA, repeat=n):
            ok, released = True, False
            for c in seq:
                if released and c not in ("finalize", "init"):
                    ok = False
                    break
                if c == "finalize":
                    released = True
                elif c == "init":
                    released = False
            if ok:
                out.append(list(seq))
    return out


def _sig(I, v):
    if isinstance(v, tuple):
        return tuple(_sig(I, x) for x in v)
    if isinstance(v, list):
        return tuple(_sig(I, x) for x in v)
    if is_sym(v):
        return str(z3.simplify(v))
    return str(v)


def _lifecycle_path(rec, opt):
    def on_path(I, log, desc, kind, named_s):
        # split the log at set-ups; inside one set-up: completion is sticky, consecutive fetches agree
        completed = False
        last_fetch = None
        ok_sticky, ok_fetch = True, True
        last_probe = None
        frozen = None
        for name, val in log:
            if name == "init":
                completed, last_fetch, frozen = False, None, None
                if val != 0:
                    rec.oblig("set-up returns 0", "violated", val, 0, desc)
            elif name == "probe":
                sig = _sig(I, val)
                if frozen is not None and sig != frozen:
                    ok_sticky = False
                if completed and frozen is None:
                    frozen = sig            # state/time/record count right after completion: must never change again
                last_probe = sig
            elif name in ("iterate", "iterate_n", "run"):
                if completed and val:
                    ok_sticky = False
                if not completed:
                    last_fetch = None          # this call may legitimately have changed the output
                if not val:
                    completed = True
            elif name == "fetch":
                sig = _sig(I, val)
                if last_fetch is not None and sig != last_fetch:
                    ok_fetch = False
                last_fetch = sig
            elif name == "sample":
                last_fetch = None              # an explicit sample call may add a record
                frozen = None
            elif name == "progress":
                pass
        rec.oblig("a completed simulation stays completed (loop calls keep returning 'finished')", "holds" if ok_sticky else "violated", "", 0, desc)
        rec.oblig("output fetched repeatedly (and after further calls on a completed simulation) is identical", "holds" if ok_fetch else "violated", "", 0, desc)
        if not ok_sticky:
            rec.violation("lifecycle-not-sticky:%s" % opt, "a loop call on a completed simulation reported 'continue' or changed its time / state / number of records (%s)" % desc, {"structure": desc},
                          replayed=_replay_sticky(opt, kind))
        if not ok_fetch:
            rec.violation("lifecycle-fetch-differs:%s" % opt, "two output fetches without an intervening step differ (%s)" % desc, {"structure": desc})
        # clean slate: everything after the LAST set-up equals what a fresh process gives (checked for the deterministic engine)
        rec.extra.setdefault("logs", {})
    return on_path


def _replay_sticky(opt, kind):
    """real build: run to completion, iterate 5 more times: progress, time and output must not move"""
    try:
        from ..enginelegs import make_script
        from ..glue import real_engine
        sd = ("grid", 2, 1, 1, 1) if kind == "grid" else ("graph", "pair")
        system = catalogue.build("AB_rev", sd)
        system.state = [25.0] * (2 * system.space.size())
        for seed in (1, 2, 3):
            e = real_engine(opt)
            e.setup(make_script(system, opt, 0.125, policy="on_iteration", t_max=0.5, isp="auto", seed=seed))
            k = 0
            while e.iterate() and k < 10 ** 6:
                k += 1
            p0, o0 = e.get_progress(), e.get_output()
            rets = []
            for call in [e.iterate] * 5 + [lambda: e.iterate_n(3), lambda: e.run(0), lambda: e.iterate_n(0), lambda: e.iterate_n(1)]:
                rets.append(bool(call()) or not e.is_complete())      # 'continue', or a completion status that went back to 'not complete'
            p1, o1 = e.get_progress(), e.get_output()
            e.finalize()
            if any(rets) or p0 != p1 or list(o0.data.value) != list(o1.data.value) or list(o0.t.value) != list(o1.t.value):
                return True
            # a time-sliced run that reports 'finished' although the simulation is not: the next loop call continues
            e = real_engine(opt)
            e.setup(make_script(system, opt, 0.001, policy="on_iteration", t_max=0.5, isp="auto", seed=seed))
            finished_early = False
            for _ in range(3):
                if not e.run(0):
                    finished_early = bool(e.iterate()) or bool(e.iterate_n(2))
                    break
            e.finalize()
            if finished_early:
                return True
        return False
    except Exception:
        return False


def _work(rec, item):
    opt, sd, chunk = item
    fresh = {}
    for calls in chunk:
        calls = list(calls)
        logs = []

        def grab(I, log, desc, kind, named_s, logs=logs):
            _lifecycle_path(rec, opt)(I, log, desc, kind, named_s)
            logs.append([(n, _sig(I, v)) for n, v in log])
        scen = dict(net="AB_rev", space=sd, option=opt, policy="on_t_sample", isp="none", n_req=2, calls=calls,
                    fields=("t_sample",) if opt != "euler" else ("state", "t_sample"), unwind=3, max_paths=200 if opt == "euler" else 60, tmax=0.3, probes=True)
        n = sym_sequence(rec, scen, on_path=grab)
        rec.vacuity_witness("%s %s" % (opt, ",".join(calls)), n > 0, "%d paths" % n)
        # clean slate after a new set-up (deterministic engine: logs are functions of the inputs only)
        if opt == "euler" and "init" in calls:
            k = len(calls) - 1 - calls[::-1].index("init")
            suffix = calls[k + 1:]
            key = tuple(suffix)
            if key not in fresh:
                flogs = []
                sym_sequence(rec, dict(scen, calls=suffix), on_path=lambda I, log, d, kd, ns_, flogs=flogs: flogs.append([(n_, _sig(I, v)) for n_, v in log]))
                fresh[key] = sorted(str(l[1:]) for l in flogs)
            def tail(l):
                idx = max(j for j, e in enumerate(l) if e[0] == "init")
                return l[idx + 1:]
            got = sorted(str(tail(l)) for l in logs)
            want = fresh[key]
            ok = set(got) <= set(want) if want else True
            desc = "euler %s" % ",".join(calls)
            rec.oblig("after a new set-up the results equal those of a fresh start (clean slate)", "holds" if ok else "violated", "", 0, desc)
            if not ok:
                rec.violation("lifecycle-not-clean-slate", "results after a second set-up differ from those of a fresh engine (%s)" % desc, {"structure": desc, "got": got[:2], "want": want[:2]})


def _extra(suffix):
    return sum(1 for c in suffix if c == "fetch2")


def run(rec):
    program()
    rec.extra["ast"] = ast_info()
    L = 3 if rec.tier == "quick" else 4
    rec.assume("call sequences: ALL sequences of length <= %d over {iterate, iterate_n(n) with n a solver variable in [0, 2], run(1 ms), sample, get_progress, fetch (twice), finalize, set-up} that respect the life cycle (after finalize only finalize or a new set-up); using a released engine is outside the property" % L)
    rec.assume("wall-clock readings of engineexport_run are arbitrary non-decreasing integers (stub of system_clock::now); runs are cut at 3 loop iterations (unwinding bound, counted in paths_cut_at_unwinding_bound)")
    rec.assume("requested times are solver variables; the Euler state is symbolic; stochastic engines run from the concrete catalogue state with arbitrary random draws")
    rec.assume("fixed-step completion count: proved as floor(t_max/dt)+1 for symbolic dt and t_max (same harness as C09), without sampling and under each sampling policy with requested times / interval that are solver variables too (an explicit t_max later than the last requested time included)")
    for fn in ("engineexport_initialize_grid/graph, iterate, iterate_n, run, sample, get_progress, get_nsamples, get_trajectory, get_tsample, finalize",
               "SimulationAlgorithm*Base::Init, *::Iterate", "GenerateStochasticDistribution (progress of the correction loop)",
               "LibRDEngine.setup/iterate/is_complete (py-sym leg)"):
        rec.encoded(fn)
    seqs = sequences(L)
    rec.bound("sequences", "%d sequences per engine kind" % len(seqs))
    items = []
    per = 16
    for opt, sd in (("euler", ("grid", 2, 1, 1, 1)), ("tauleap", ("graph", "pair")), ("gillespie", ("grid", 2, 1, 1, 0))):
        ss = seqs if opt == "euler" else [s for s in seqs if len(s) <= (2 if rec.tier == "quick" else 3)]
        for k in range(0, len(ss), per):
            items.append((opt, sd, ss[k:k + per]))
    rec.parallel(_work, items)
    # termination of fixed-step runs: number of steps
    # ... whatever the sampling policy: with requested times that all lie BEFORE an explicit t_max, the run still goes on to t_max
    rec.parallel(_steps, [("euler", "grid"), ("tauleap", "graph"), ("euler", "graph"), ("tauleap", "grid"),
                          ("euler", "grid", "on_t_sample", 2), ("euler", "graph", "on_t_sample", 1), ("tauleap", "grid", "on_t_sample", 1), ("tauleap", "graph", "on_t_sample", 2),
                          ("euler", "graph", "on_interval", 0), ("tauleap", "grid", "on_iteration", 0)])
    # clean slate for the stochastic set-up path too: a second set-up (initial-state processing included) must not read
    # process-lifetime storage written during an earlier simulation, whatever kind that one was
    rec.parallel(_stale, [("gillespie", ("grid", 2, 1, 1, 0), "gillespie", ("grid", 2, 1, 1, 0), "auto"), ("tauleap", ("graph", "pair"), "gillespie", ("grid", 2, 1, 1, 1), "redist"),
                          ("euler", ("grid", 2, 1, 1, 0), "tauleap", ("graph", "pair"), "auto")])
    from . import C14
    C14.gsd_progress(rec)
    C14.gsd_progress(rec, 2, 2)        # two species: the weights of the correction draw must be read with the right stride
    from . import C10_py
    C10_py.run(rec)


def _stale(rec, item):
    from .C08 import no_stale_state
    no_stale_state(rec, item)


def _steps(rec, item):
    opt, kind = item[0], item[1]
    policy, n_req = (item[2], item[3]) if len(item) > 2 else ("no_sampling", 0)
    check_sampling(rec, opt, kind, policy, 4, n_req, "symbolic", False, ())
