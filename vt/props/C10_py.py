"""Python legs of C10: the LibRDEngine wrapper as a state machine over a reference stand-in library."""
from .. import pysym

HARNESS = r'''
from strengths import *
from strengths.librdengine import LibRDEngine
from harness.c12lib import mk_system
from strengths.rdscript import RDScript
import ctypes


class FakeLib:
    """reference stand-in for the shared library: one simulation PER LIBRARY OBJECT, finished after `life` iterations"""

    class _Fn:
        restype = None
        def __call__(self, *a):
            return 0.0

    def __init__(self, life):
        self.life, self.done, self.live = life, 0, False
        self.engineexport_get_progress = FakeLib._Fn()
        self.engineexport_get_time = FakeLib._Fn()
    def engineexport_initialize_grid(self, *a):
        self.done, self.live = 0, True
        return 0
    engineexport_initialize_graph = engineexport_initialize_grid
    def _step(self, n):
        for _ in range(n):
            if self.done < self.life:
                self.done += 1
        return 1 if self.done < self.life else 0
    def engineexport_iterate(self):
        return self._step(1)
    def engineexport_iterate_n(self, n):
        return self._step(n)
    def engineexport_run(self, ms):
        return self._step(2)
    def engineexport_sample(self):
        return 0
    def engineexport_finalize(self):
        self.live = False
        return 0


_SCRIPT = None


def script(graph=0):
    """a grid script (0) or a graph script (1): the two go through different set-up routines of the wrapper"""
    global _SCRIPT
    if _SCRIPT is None:
        _SCRIPT = [RDScript(mk_system(0, 0, 0), [0, 1.0]), RDScript(mk_system(0, 1, 0), [0, 1.0])]
    return _SCRIPT[graph % 2]


OPS = ["setup", "iterate", "iterate_n", "run", "sample", "finalize", "iterate_n0"]


class OutFake(FakeLib):
    """stand-in whose output calls fill the caller's buffers - and note how long a buffer the wrapper handed over"""

    def __init__(self, nsamp, n):
        FakeLib.__init__(self, 2)
        self.nsamp, self.n, self.lens = nsamp, n, []

    def engineexport_get_nsamples(self):
        return self.nsamp

    def engineexport_get_trajectory(self, buf):
        self.lens.append(len(buf))
        for i in range(min(len(buf), self.nsamp * self.n)):
            buf[i] = 10.0 + i
        return 0

    def engineexport_get_tsample(self, buf):
        for i in range(min(len(buf), self.nsamp)):
            buf[i] = 0.5 * i
        return 0


def output_is_a_snapshot(edit, graph):
    """The output can be fetched repeatedly with the same result - also when the CALLER goes on using its script object after
    set-up (changes its units system, its sample times, its seed, replaces its system by a smaller / larger one): the engine
    object answers for the simulation it was set up with. Every fetch hands the native engine a buffer of exactly
    n_samples x (state size of the system that was set up) doubles (a shorter one would be overrun by the engine)."""
    sc = RDScript(mk_system(0, graph, 0), [0, 1.0, 2.0], time_step=0.5)
    n0 = sc.system.state_size()
    lib = OutFake(3, n0)
    e = LibRDEngine(lib, option="euler")
    e.setup(sc)
    e.iterate()
    a = e.get_output()
    if edit == 0:
        sc.units_system = UnitsSystem("mm", "ms", "mol")
    elif edit == 1:
        sc.t_sample = [0, 5.0]
    elif edit == 2:
        sc.rng_seed = 987
    elif edit == 3:
        small = RDSystem(RDNetwork(species=[Species("A")], reactions=[]), RDGridSpace(w=1, h=1, d=1))
        sc.system = small
    else:
        sc.system = mk_system(1, 1 - graph, 0)
    b = e.get_output()
    if any(l != 3 * n0 for l in lib.lens):
        return False
    same = [float(v) for v in a.data.value] == [float(v) for v in b.data.value] and str(a.data.units) == str(b.data.units)
    same = same and [float(v) for v in a.t.value] == [float(v) for v in b.t.value] and str(a.t.units) == str(b.t.units)
    same = same and a.system.state_size() == b.system.state_size() == n0 and a.script.rng_seed == b.script.rng_seed
    same = same and [float(v) for v in a.script.t_sample.value] == [float(v) for v in b.script.t_sample.value]
    return same


def dropping_an_object_is_silent(o0, o1, o2, o3):
    """Engine objects used strictly one after the other on one library: the native simulation is released by finalize() and by
    nothing else. Reclaiming an engine object (last reference dropped, garbage collection) issues NO native call - otherwise it
    would release the simulation that by then belongs to the object in use, whose next call reads freed memory. Sequences of 4
    operations over {use the current object (iterate), finalize it, replace it by a new object that is set up, drop every old
    object and collect}; after each: the stand-in's simulation is live iff the current object was set up and not finalized."""
    import gc
    lib = FakeLib(3)
    calls = []
    for name in ("engineexport_initialize_grid", "engineexport_initialize_graph", "engineexport_finalize", "engineexport_iterate"):
        def wrap(f, name=name):
            def g(*a):
                calls.append(name)
                return f(*a)
            return g
        setattr(lib, name, wrap(getattr(lib, name)))
    cur = LibRDEngine(lib, option="euler")
    cur.setup(script(0))
    old = []
    live = True
    k = 0
    for o in (o0, o1, o2, o3):
        if o == 0:
            if live:
                cur.iterate()
        elif o == 1:
            cur.finalize()
            live = False
        elif o == 2:
            if live:
                cur.finalize()             # sequential use: the previous object is finalized before the next one is set up
            old.append(cur)
            k += 1
            cur = LibRDEngine(lib, option="euler")
            cur.setup(script(k))
            live = True
        else:
            n0 = len(calls)
            del old[:]
            gc.collect()
            if len(calls) != n0:
                return False               # reclaiming an object made a native call
        if lib.live != live:
            return False
    return True


def completion_refers_to_current_setup(life, o0, o1, o2, o3, o4):
    """after any sequence of wrapper calls starting with setup, is_complete() is True iff the CURRENT set-up has finished"""
    lib = FakeLib(life)
    e = LibRDEngine(lib, option="euler")
    # the space type alternates from one set-up to the next (grid, graph, grid, ... or the reverse, from the parity of `life + o0`)
    nsetup = [life + o0]
    def nxt():
        nsetup[0] += 1
        return script(nsetup[0])
    e.setup(nxt())
    for o in (o0, o1, o2, o3, o4):
        op = OPS[o]
        if op == "setup":
            e.setup(nxt())
        elif op == "iterate":
            e.iterate()
        elif op == "iterate_n":
            e.iterate_n(2)
        elif op == "iterate_n0":
            e.iterate_n(0)
        elif op == "run":
            e.run(1)
        elif op == "sample":
            e.sample()
        elif op == "finalize":
            e.finalize()
            e.setup(nxt())
        if e.is_complete() != (lib.done >= lib.life and lib.life > 0 and lib.done > 0):
            return False
    return True
'''


DROP_COND = '''

def h_drop_is_silent(o0: int, o1: int, o2: int, o3: int) -> bool:
    """
    pre: 0 <= o0 <= 3 and 0 <= o1 <= 3 and 0 <= o2 <= 3 and 0 <= o3 <= 3
    post: _
    """
    return dropping_an_object_is_silent(o0, o1, o2, o3)
'''
SNAP_COND = '''

def h_output_snapshot(edit: int, graph: int) -> bool:
    """
    pre: 0 <= edit <= 4 and 0 <= graph <= 1
    post: _
    """
    return output_is_a_snapshot(edit, graph)
'''
SNAP = {"fn": "h_output_snapshot", "what": "the output can be fetched repeatedly with the same result also when the caller goes on using its script object after set-up (units system, sample times, seed changed; system replaced by a smaller / "
        "another one): the engine object answers for the simulation it was set up with, and every fetch hands the native engine a buffer of exactly n_samples x (state size at set-up) doubles",
        "sig": "wrapper-output-not-a-snapshot", "structure": "LibRDEngine", "viol": "the engine object reads the caller's LIVE script when the output is fetched: a second fetch differs from the first, and after the caller's system "
        "was replaced by a smaller one the native engine writes past the end of the buffer it is handed"}
DROP = {"fn": "h_drop_is_silent", "what": "the native simulation is released by finalize() and by nothing else: reclaiming an engine object (reference dropped, garbage collection) issues no native call, so it cannot release the "
        "simulation of the object in use (engine objects used strictly one after the other on one library; all sequences of 4 operations over {iterate, finalize, replace by a new set-up object, drop old objects and collect})",
        "sig": "wrapper-releases-on-drop", "structure": "LibRDEngine", "viol": "an engine object releases the process-wide native simulation when it is reclaimed: the simulation of the engine in use is freed under it (use after free at its next call)"}


def run(rec):
    rec.assume("LibRDEngine is driven as a state machine against a reference stand-in for the CDLL (finishes after `life` iterations); ALL sequences of 4 wrapper calls (+ a final sample) over {setup, iterate, iterate_n(2), iterate_n(0), run, sample, finalize+setup} are enumerated exhaustively")
    rec.encoded("LibRDEngine.setup/iterate/iterate_n/run/sample/is_complete/finalize")
    text = HARNESS + '''

def h_is_complete(life: int, o0: int, o1: int, o2: int, o3: int) -> bool:
    """
    pre: 1 <= life <= 3 and 0 <= o0 <= 6 and 0 <= o1 <= 6 and 0 <= o2 <= 6 and 0 <= o3 <= 6
    post: _
    """
    return completion_refers_to_current_setup(life, o0, o1, o2, o3, 4)
'''
    text += '''

def h_setup_is_pure(f_units: int, f_space: int, o1: int, o2: int) -> bool:
    """
    pre: 0 <= f_units <= 5 and 0 <= f_space <= 1 and 0 <= o1 <= 2 and 0 <= o2 <= 2
    post: _
    """
    from harness.c08lib import setup_is_pure
    return setup_is_pure(f_units, f_space, o1, o2)
'''
    text += '''

def h_step_count_units(u: int, g: int, opt: int, tu: int) -> bool:
    """
    pre: 0 <= u <= 10 and 0 <= g <= 1 and 0 <= opt <= 2 and 0 <= tu <= 3
    post: _
    """
    from harness.c09lib import step_count_in_units
    return step_count_in_units(u, g, opt, tu)
'''
    text += DROP_COND + SNAP_COND
    mod = pysym.write_module("hgen_C10", text)
    pysym.run_auto(rec, mod, [{"fn": "h_is_complete", "what": "the completion status reported by an engine object always refers to its current set-up (every sequence of 4 wrapper calls, stand-in library finishing after 1..3 iterations)",
                               "sig": "c10-is-complete-stale", "structure": "LibRDEngine", "viol": "is_complete() reports the status of a previous set-up"},
                              {"fn": "h_setup_is_pure", "what": "a new set-up starts from a clean slate at the Python layer too: setting an engine object up leaves the caller's script untouched, so a later set-up of the same script on this or another engine object hands the native engine what a fresh identical script gives (6 unit-system choices x grid/graph x 3x3 engine kinds)",
                               "sig": "c10-setup-not-clean", "structure": "LibRDEngine", "viol": "a set-up writes into the caller's script: a later set-up of the same script (same or other engine object) is not the simulation the script describes"},
                              {"fn": "h_step_count_units", "what": "a fixed-step run completes after ceil(t_max/dt) steps of the MODEL: the ratio t_max / time_step handed to the native engine equals the physical ratio, for t_max / time_step / sampling interval written with their own units (ms, min, h, s) under any of the 11 script systems, grid and graph, 3 engine kinds",
                               "sig": "c10-step-count-units", "structure": "LibRDEngine", "viol": "the number of steps to completion depends on the units in which t_max / the time step are written"},
                              dict(DROP, sig="c10-" + DROP["sig"]), dict(SNAP, sig="c10-" + SNAP["sig"])])
    two_objects(rec)
    no_hang(rec)


def no_hang(rec):
    """Every loop call returns: the unwinding bound of the symbolic legs cuts a loop that does not terminate (listed as inconclusive),
    so the termination clause is also exercised on the REAL build in child processes with a time limit, on the inputs where the
    sampling loops do the most work per call: several requested times inside one step, a repeated first time, a requested list that
    starts after 0, a single requested time - grid and graph, three engine kinds."""
    import os
    import subprocess
    import sys
    from ..common import scratch, SRC, VERIF
    code = r'''
import sys
sys.path.insert(0, %r); sys.path.insert(0, %r)
from strengths import *
from strengths.rdgraphspace import RDGraphSpaceNode as N_, RDGraphSpaceEdge as E_
from vt.glue import real_engine
k, opt, graph = int(sys.argv[1]), sys.argv[2], int(sys.argv[3])
ts = [[0, 0.25, 0.26, 1.0], [0, 0, 0.5], [0.3, 0.31, 0.32], [0.7], [0, 0.05, 0.06, 0.07, 0.08, 2.0]][k]
net = RDNetwork(species=[Species("A", D=1.0), Species("B", D=0.5)], reactions=[Reaction("A -> B", kf=1.0, kr=0.5)])
space = RDGraphSpace(nodes=[N_(1.0, 0), N_(1.0, 0), N_(1.0, 0)], edges=[E_(0, 1), E_(1, 2)]) if graph else RDGridSpace(w=3, h=1, d=1)
s = RDSystem(net, space, state=[40.0, 10.0, 0.0, 5.0, 0.0, 30.0])
e = real_engine(opt)
e.setup(RDScript(s, ts, time_step=0.1, rng_seed=3))
n = 0
while e.iterate() and n < 200000:
    n += 1
o = e.get_output(); e.finalize()
print("RETURNED", n, len(o.t.value))
''' % (SRC, VERIF)
    path = os.path.join(scratch(), "no_hang.py")
    open(path, "w").write(code)
    bad = []
    for k in range(5):
        for opt in ("euler", "tauleap", "gillespie"):
            for graph in (0, 1):
                try:
                    r = subprocess.run([sys.executable, path, str(k), opt, str(graph)], capture_output=True, text=True, timeout=30, env=dict(os.environ, VERIF_SHARED_SCRATCH=scratch()))
                    if "RETURNED" not in r.stdout:
                        bad.append("scenario %d %s %s: ended without returning (exit code %d) %s" % (k, opt, "graph" if graph else "grid", r.returncode, r.stderr.strip()[-160:]))
                except subprocess.TimeoutExpired:
                    bad.append("scenario %d %s %s: no return within 30 s" % (k, opt, "graph" if graph else "grid"))
                if len(bad) >= 3:
                    break
            if len(bad) >= 3:
                break
        if len(bad) >= 3:
            break
    rec.oblig("every loop call returns on the real build (sampling-loop scenarios: several requested times in one step, repeated first time, list starting after 0, single time; grid / graph x 3 engines, child processes with a time limit)",
              "holds" if not bad else "violated", bad[:3], 0, "real build, no hang")
    if bad:
        rec.violation("c10-loop-call-does-not-return", "a set-up / loop call of the real build does not return: " + "; ".join(bad[:3]), {"scenarios": bad[:6]})


def two_objects(rec):
    """Engine objects are independent: demonstrated on the real build in a CHILD process (two LibRDEngine objects over the same
    shared library; the two systems have equal state sizes so that the defect cannot overflow a buffer of the check itself)."""
    import os
    import subprocess
    import sys
    from ..common import scratch, SRC, VERIF
    code = r'''
import sys
sys.path.insert(0, %r); sys.path.insert(0, %r)
from vt import catalogue
from vt.enginelegs import make_script
from vt.glue import real_engine
s1 = catalogue.build("AB_rev", ("grid", 2, 1, 1, 0))
s2 = catalogue.build("AB_rev", ("graph", "pair"))
sc1 = make_script(s1, "euler", 0.125, policy="on_iteration", t_max=0.5)
sc2 = make_script(s2, "euler", 0.25, policy="on_iteration", t_max=1.0)
e1 = real_engine("euler"); e1.setup(sc1); e1.iterate()
ref = [float(v) for v in e1.get_output().data.value]
e2 = real_engine("euler"); e2.setup(sc2); e2.iterate()
got = [float(v) for v in e1.get_output().data.value]
e2.finalize()
print("SAME" if got == ref else "DIFFERENT", ref[:4], got[:4])
''' % (SRC, VERIF)
    path = os.path.join(scratch(), "two_objects.py")
    open(path, "w").write(code)
    try:
        r = subprocess.run([sys.executable, path], capture_output=True, text=True, timeout=120, env=dict(os.environ, VERIF_SHARED_SCRATCH=scratch()))
        out = (r.stdout.strip().splitlines() or ["crashed with exit code %d" % r.returncode])[-1]
    except subprocess.TimeoutExpired:
        out = "timeout"
    ok = out.startswith("SAME")
    rec.oblig("operating a second engine object does not change what the first one returns (real build, two LibRDEngine objects)", "holds" if ok else "violated", out[:200], 0, "two engine objects")
    if not ok:
        rec.violation("c10-engine-objects-share-one-simulation", "engine objects are not independent: after a second engine object is set up, the first one's get_output() returns the second simulation's data "
                      "(the native library keeps ONE process-wide simulation): " + out[:200], {"child_output": out})


def drop_leg(rec, prefix):
    """the same condition under another property's id (C11: no use after free through the wrapper)"""
    mod = pysym.write_module("hgen_%s_drop" % prefix, HARNESS + DROP_COND + SNAP_COND)
    pysym.run_auto(rec, mod, [dict(DROP, sig=prefix.lower() + "-" + DROP["sig"]), dict(SNAP, sig=prefix.lower() + "-" + SNAP["sig"])])
