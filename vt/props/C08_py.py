def run(rec):
    pass
