"""Python legs of C08: the seed is part of the script, is carried by copies, and reaches the engine unchanged."""
from .. import pysym

HARNESS = r'''
from strengths import *
from strengths.rdscript import RDScript, rdscript_to_dict, rdscript_from_dict
from strengths.librdengine import LibRDEngine
from harness.c12lib import mk_system, mk_script
import copy as _copy
from vt.glue import RecLib, GRID_NAMES

from harness.c08lib import setup_is_pure

_S = None


def system():
    global _S
    if _S is None:
        _S = mk_system(0, 0, 0)
    return _S


def seed_kept(seed):
    s = RDScript(system(), [0, 1.0], rng_seed=seed)
    return s.rng_seed == seed and s.copy().rng_seed == seed and rdscript_from_dict(rdscript_to_dict(s)).rng_seed == seed


def seed_drawn(k):
    s = RDScript(system(), [0, 1.0])          # no seed given: one is drawn and stored
    v = s.rng_seed
    return isinstance(v, int) and 0 <= v < 2 ** 32 and s.copy().rng_seed == v and rdscript_from_dict(rdscript_to_dict(s)).rng_seed == v


def seed_reaches_engine(k, opt):
    seed = [0, 1, 12345, 2 ** 31 - 1, 2 ** 31, 2 ** 32 - 1][k]
    lib = RecLib()
    option = ["euler", "tauleap", "gillespie"][opt]
    e = LibRDEngine(lib, option=option, requires_molecules=option != "euler")
    sc = RDScript(system(), [0, 1.0], rng_seed=seed)
    e.setup(sc)
    name, vals = [c for c in lib.log if c[0].startswith("engineexport_initialize")][0]
    got = dict(zip(GRID_NAMES, vals))["seed"]
    # the C ABI takes an int: the value must be the script's seed modulo 2^32 (std::mt19937 seeds with the low 32 bits)
    return (got - seed) % (2 ** 32) == 0 and e.get_output.__self__._script.rng_seed == seed
'''


def run(rec):
    rec.assume("the script's seed: symbolic for the store/copy/dict legs (CrossHair); boundary seeds {0, 1, 12345, 2^31-1, 2^31, 2^32-1} x engine kinds for the value that reaches the C ABI (ctypes realises it), compared modulo 2^32")
    rec.encoded("RDScript.rng_seed / copy, rdscript_to_dict/from_dict, LibRDEngine.setup (seed argument; reads of the script)")
    text = HARNESS + '''

def h_seed_kept(seed: int) -> bool:
    """
    pre: 0 <= seed < 4294967296
    post: _
    """
    return seed_kept(seed)


def h_seed_drawn(k: int) -> bool:
    """
    pre: 0 <= k <= 40
    post: _
    """
    return seed_drawn(k)


def h_seed_reaches_engine(k: int, opt: int) -> bool:
    """
    pre: 0 <= k <= 5 and 0 <= opt <= 2
    post: _
    """
    return seed_reaches_engine(k, opt)
'''
    text += '''

def h_setup_is_pure(f_units: int, f_space: int, o1: int, o2: int) -> bool:
    """
    pre: 0 <= f_units <= 5 and 0 <= f_space <= 1 and 0 <= o1 <= 2 and 0 <= o2 <= 2
    post: _
    """
    return setup_is_pure(f_units, f_space, o1, o2)
'''
    text += '''

def h_drawn_seed_used(opt: int, f_space: int, rep: int) -> bool:
    """
    pre: 0 <= opt <= 2 and 0 <= f_space <= 1 and 0 <= rep <= 5
    post: _
    """
    from harness.c08lib import drawn_seed_is_the_one_used
    return drawn_seed_is_the_one_used(opt, f_space)
'''
    text += '''

def h_engine_reuse(opt: int, f_space: int, edit: int) -> bool:
    """
    pre: 0 <= opt <= 2 and 0 <= f_space <= 1 and 0 <= edit <= 5
    post: _
    """
    from harness.c08lib import engine_reuse_is_fresh
    return engine_reuse_is_fresh(opt, f_space, edit)
'''
    mod = pysym.write_module("hgen_C08", text)
    pysym.run_auto(rec, mod, [
        {"fn": "h_seed_kept", "what": "a given seed is stored, carried by copy() and by the dictionary round trip (seed symbolic in [0, 2^32))", "sig": "c08-seed-kept", "structure": "seed", "timeout": 60, "force_crosshair": True},
        {"fn": "h_seed_drawn", "what": "when no seed is given an integer in [0, 2^32) is drawn, stored and carried by copies", "sig": "c08-seed-drawn", "structure": "seed"},
        {"fn": "h_seed_reaches_engine", "what": "LibRDEngine.setup hands exactly the script's seed (mod 2^32) to the native engine, and the stored script keeps it", "sig": "c08-seed-abi", "structure": "seed"},
        {"fn": "h_setup_is_pure", "what": "LibRDEngine.setup never writes to the caller's script: its dictionary is unchanged and a later set-up of the same script object (any engine kind) hands the native engine exactly what a freshly built identical script gives (6 unit-system choices incl. non-molecule quantity units x grid/graph x 3x3 engine kinds)",
         "sig": "c08-setup-pure", "structure": "script", "viol": "setting an engine up changes the caller's script, so the next simulation of the same script differs"},
        {"fn": "h_drawn_seed_used", "what": "when no seed is given, the seed handed to the native engine is the one kept in the engine's copy of the script (returned with the trajectory) and reported by the caller's script, for every engine kind on grid and graph (6 repetitions: the seed is random)",
         "sig": "c08-drawn-seed", "structure": "seed", "viol": "without an explicit seed the script stored with the run does not hold the seed that was used: re-running it does not reproduce the trajectory"},
        {"fn": "h_engine_reuse", "what": "an engine object that already simulated a script gives, after the script was edited in place (rate constant, per-environment constants, D, a state entry, a chemostat flag, the time step), exactly what a fresh engine object gives (3 engine kinds x grid/graph x 6 edits)",
         "sig": "c08-engine-reuse", "structure": "engine object", "viol": "an engine object keeps something of an earlier set-up: the same script and seed give another simulation on a used engine than on a fresh one"}])
