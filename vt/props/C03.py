"""C03 Chemostated entries never change; everything else ignores the flag."""
from .. import catalogue
from ..enginelegs import check_euler_step
from ..stochlegs import gillespie_stage1, gillespie_stage2, tauleap_step
from ..cxx.engine import ast_info, program


def flag_maps(ns, nc, tier):
    """concrete flag maps (species-major) for the stochastic legs: species >= 1 only, cell >= 1 only, mixed, all."""
    n = ns * nc
    maps = []
    if ns > 1:
        maps.append([1 if s >= 1 else 0 for s in range(ns) for i in range(nc)])
        maps.append([1 if (s == ns - 1 and i == 0) else 0 for s in range(ns) for i in range(nc)])
    if nc > 1:
        maps.append([1 if i >= 1 else 0 for s in range(ns) for i in range(nc)])
        maps.append([1 if (s == 0 and i == nc - 1) else 0 for s in range(ns) for i in range(nc)])
    maps.append([(s + i) % 2 for s in range(ns) for i in range(nc)])
    if tier != "quick":
        maps.append([1] * n)
        maps.append([((s * 3 + i * 5) % 3 == 0) * 1 for s in range(ns) for i in range(nc)])
    uniq = []
    for m in maps:
        if m not in uniq and any(m):
            uniq.append(m)
    return uniq


def structures(tier, seed):
    if tier == "quick":
        return [("AB_rev", ("grid", 2, 1, 1, 1)), ("ABC_bi", ("graph", "triangle")), ("order3_repeat", ("grid", 2, 2, 1, 4)),
                ("dimer_source", ("graph", "pair")), ("ABC_bi", ("grid", 3, 1, 1, 1)), ("AB_rev", ("graph", "parallel")),
                ("AB_rev", ("graph", "triangle"))]        # 2 species x 3 nodes: a layout that is NOT square (a transposed flag map is then another map)
    return [p for p in catalogue.pairs("thorough", seed, engine_multigraph=True) if p[0] != "none"]


def run(rec):
    program()
    rec.extra["ast"] = ast_info()
    rec.assume("doubles are exact reals; one inductive step from an arbitrary state (see C02/C07)")
    rec.assume("Euler leg: the chemostat flags handed to the C ABI are solver variables in {0,1}: all 2^(species*cells) maps are covered by each query; expected value If(flag(s,i), x, x + dt*law) with flagged entries still contributing as reactants and diffusion partners")
    rec.assume("stochastic legs: concrete flag maps (species>=1 only, cell>=1 only, single entries, mixed); the applied change vector must be the channel vector masked by exactly those flags while propensities / Poisson means ignore the flags")
    rec.assume("Python legs (kinetics functions, make_dxdtf, apply_reaction) are decided by py-sym, see evidence keys py_*")
    for fn in ("Euler3D/EulerGraph::Compute_dxdt", "TauLeap*::Apply_nevt", "Gillespie*::ApplyReaction/ApplyDiffusion", "SpeciesFirstToMeshFirstArray<int>", "LibRDEngine.setup (chemostat map marshalling)"):
        rec.encoded(fn)
    items = []
    for netname, sd in structures(rec.tier, rec.seed):
        sysm = catalogue.build(netname, sd)
        ns, nc = len(sysm.network.species), sysm.space.size()
        items.append((netname, sd, None, "euler-sym"))
        for chem in flag_maps(ns, nc, rec.tier):
            items.append((netname, sd, chem, "tauleap"))
            items.append((netname, sd, chem, "gillespie"))
    rec.parallel(_work, items, item_budget_s=240 if rec.tier == "quick" else 900)
    from . import C03_py
    C03_py.run(rec)


def _work(rec, item):
    netname, sd, chem, eng = item
    if eng == "euler-sym":
        check_euler_step(rec, netname, sd, None, label="euler step with symbolic chemostat flags", sym_chem=True)
    elif eng == "tauleap":
        tauleap_step(rec, netname, sd, chem)
    else:
        facts = gillespie_stage1(rec, netname, sd, chem)
        gillespie_stage2(rec, facts, netname, sd, chem)
