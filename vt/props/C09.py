"""C09 Sampling contract: which states are recorded, when, and in what shape."""
import z3

from .. import catalogue
from ..samplinglegs import check_sampling
from ..enginelegs import make_script, symbolize, state_term, volumes_of, _collect_safety
from ..stochlegs import get_state, _prove
from ..glue import record_setup
from ..oracle import SymTab
from ..cxx.engine import ast_info, program, initialize, fetch_output, explore, is_sym

OPTS = ("euler", "tauleap", "gillespie")
KINDS = ("grid", "graph")


def configs(tier):
    out = []
    K = 3 if tier == "quick" else 5
    for o in OPTS:
        for kd in KINDS:
            out.append((o, kd, "on_t_sample", K, 2, "symbolic", False, ()))
            out.append((o, kd, "on_interval", K, 0, "symbolic", False, ()))
            out.append((o, kd, "on_iteration", K, 0, "symbolic", False, ()))
            out.append((o, kd, "no_sampling", K, 0, "symbolic", False, ((0, "s"), (1, "s"))))
    # deeper / special cases
    out.append(("euler", "grid", "on_t_sample", 4 if tier == "quick" else 6, 3, "symbolic", False, ()))
    out.append(("euler", "graph", "on_t_sample", 4, 2, "default", False, ()))
    out.append(("tauleap", "grid", "on_t_sample", 4, 3, "default", False, ()))
    out.append(("euler", "grid", "on_t_sample", 4 if tier == "quick" else 5, 2, "symbolic", True, ()))
    out.append(("tauleap", "graph", "on_interval", 4, 0, "symbolic", True, ()))
    out.append(("euler", "graph", "on_iteration", 3, 0, "symbolic", False, ((1, "s"), (2, "s"))))
    out.append(("euler", "grid", "on_t_sample", 3, 2, "symbolic", False, ((0, "s"), (2, "s"))))
    out.append(("gillespie", "grid", "no_sampling", 3, 0, "symbolic", False, ((1, "s"), (1, "s"), (3, "s"))))
    # explicit calls AFTER completion (the run is over within K steps on some paths; the extra iteration and step K+1 come after it)
    out.append(("euler", "grid", "no_sampling", 3, 0, "symbolic", False, ((2, "s"), (3, "s"), (4, "s"), (4, "s"))))
    out.append(("tauleap", "graph", "on_t_sample", 3, 1, "symbolic", False, ((3, "s"), (4, "s"))))
    if tier != "quick":
        out.append(("gillespie", "graph", "on_t_sample", 6, 3, "symbolic", False, ()))
        out.append(("euler", "grid", "on_interval", 6, 0, "symbolic", True, ()))
        out.append(("tauleap", "grid", "on_t_sample", 6, 3, "symbolic", True, ()))
    return out


def layout_leg(rec, item):
    """nsamples x nspecies x ncells values, ordered sample / species / cell; record 0 = the initial state."""
    netname, sd, option = item
    desc = "layout %s %s" % (option, catalogue.describe(netname, sd))
    system = catalogue.build(netname, sd)
    rec.structure(desc)
    st = SymTab(concrete=volumes_of(system))
    X = state_term(system, st)
    script = make_script(system, option, 0.00390625, policy="on_iteration", isp="none")
    kind, named, _ = record_setup(script, option)
    named_s = symbolize(kind, named, st, ("state",))
    ns, nc = len(system.network.species), system.space.size()

    def body(I):
        for c in st.positivity():
            I.assume(c)
        I.summarise = {"ReactionProp", "Poisson"}
        I.check_lib_pre = False
        initialize(I, kind, named_s)
        states = [list(get_state(I, ns, nc))]
        for k in range(2):
            I.call_fn("engineexport_iterate", [])
            states.append(list(get_state(I, ns, nc)))
        return states, fetch_output(I, ns, nc)

    npaths = 0
    for pr in explore(program(), body, max_paths=40 if option == "gillespie" else 8):
        if pr.I is None or pr.ended:
            if option != "gillespie":
                rec.oblig("layout run", "inconclusive", pr.ended, structure=desc)
            continue
        I = pr.I
        _collect_safety(rec, I, desc)
        states, (n, data, ts) = pr.value
        npaths += 1
        if n != 3 or len(data) != 3 * ns * nc:
            if option == "gillespie":
                continue   # a0 == 0 paths complete early
            rec.oblig("data holds nsamples*nspecies*ncells values", "violated", "n=%s len=%s" % (n, len(data)), 0, desc)
            rec.violation("layout-size", "trajectory data size is not nsamples*nspecies*ncells (%s)" % desc, {"structure": desc})
            continue
        for s in range(ns):
            for i in range(nc):
                _prove(rec, I, "record 0 entry (species %d, cell %d) is the initial state entry at species*ncells+cell" % (s, i),
                       I.toreal(data[s * nc + i]) == X(s, i), desc,
                       lambda m: rec.violation("layout-record0", "the t=0 record is not the initial state in species-major order (%s)" % desc, {"structure": desc, "model": str(m)[:300]}))
        ok = True
        for k in range(3):
            for j in range(ns * nc):
                a, b = data[k * ns * nc + j], states[k][j]
                if not ((a is b) or z3.eq(I.tosym(a), I.tosym(b))):
                    st_, _ = I.prove(I.toreal(a) == I.toreal(b))
                    ok = ok and st_ == "holds"
        rec.oblig("record n block [n*S*C + s*C + i] equals the state after step n (as returned by get_state)", "holds" if ok else "violated", "", 0, desc)
        if not ok:
            rec.violation("layout-blocks", "sample blocks are not ordered sample/species/cell (%s)" % desc, {"structure": desc})
    rec.vacuity_witness(desc, npaths > 0, "%d paths" % npaths)


def _work(rec, item):
    if item[0] == "layout":
        layout_leg(rec, item[1:])
    else:
        o, kd, pol, K, n_req, tm, var, calls = item
        check_sampling(rec, o, kd, pol, K, n_req, tm, var, calls)


def run(rec):
    program()
    rec.extra["ast"] = ast_info()
    rec.assume("doubles are exact reals; dt / per-step lengths, requested times and t_max are solver variables (0 <= r0 <= r1 <= ..., dt > 0, t_max >= 0); interval = 0.5 (concrete)")
    rec.assume("'varstep' runs overwrite the step length before every iteration with a fresh positive real: they stand for event-driven time (Gillespie waiting times); Gillespie runs stub ComputePropensities (a0 = 1) and DrawAndApplyEvent (no-op) and assume the waiting-time draw u > 0")
    rec.assume("requested times beyond t_max may or may not be recorded (the property is silent): only 'no spurious record' is required of them")
    rec.assume("K iterations per run (bounded); runs that do not complete within K steps are checked on the executed prefix")
    rec.bound("K", "3 (quick) / 5-6 (thorough) iterations, <= 3 requested times")
    for fn in ("SimulationAlgorithm3DBase/GraphBase::Init, SamplingStep, SampleOnTSample, SampleOnInterval, Sample, CheckTMax, FlagAsComplete",
               "Euler*/TauLeap*/Gillespie*::Iterate", "engineexport_sample/get_nsamples/get_tsample/get_trajectory/get_state", "RDScript.t_max default (through LibRDEngine.setup)"):
        rec.encoded(fn)
    items = list(configs(rec.tier))
    items += [("layout", "AB_rev", ("grid", 2, 1, 1, 1), "euler"), ("layout", "ABC_bi", ("graph", "triangle"), "euler"),
              ("layout", "AB_rev", ("grid", 2, 1, 1, 0), "tauleap"), ("layout", "AB_rev", ("graph", "pair"), "gillespie")]
    rec.parallel(_work, items)
    # Python side: what "default: the last requested time" means when the script is edited after its construction
    from .. import pysym
    text = '''from harness.c09lib import *


def h_default_tmax_follows(edit: int, f_space: int, opt: int) -> bool:
    """
    pre: 0 <= edit <= 3 and 0 <= f_space <= 1 and 0 <= opt <= 2
    post: _
    """
    return default_tmax_follows(edit, f_space, opt)


def h_times_in_units(u: int, g: int, opt: int, tu: int) -> bool:
    """
    pre: 0 <= u <= 10 and 0 <= g <= 1 and 0 <= opt <= 2 and 0 <= tu <= 3
    post: _
    """
    return step_count_in_units(u, g, opt, tu)


def h_wrapper_no_sample(opt: int, g: int, pol: int, first: int) -> bool:
    """
    pre: 0 <= opt <= 2 and 0 <= g <= 1 and 0 <= pol <= 3 and 0 <= first <= 1
    post: _
    """
    return wrapper_records_nothing_itself(opt, g, pol, first)
'''
    mod = pysym.write_module("hgen_C09", text)
    pysym.run_auto(rec, mod, [{"fn": "h_default_tmax_follows", "what": "t_max left at its default is the last requested time of the script AS IT IS when the engine is set up (sample times replaced by a longer / shorter list or edited in place); "
                               "an explicit t_max stays; dictionary round trip and copy agree (grid/graph x 3 engine kinds)", "sig": "c09-default-tmax", "structure": "script",
                               "viol": "the default t_max is a stale copy of an earlier last sample time"},
                              {"fn": "h_times_in_units", "what": "requested sample times, sampling interval, t_max and time step written with their own time unit (ms, min, h, s; array with units / list of quantities) under any of the 11 script systems reach the "
                               "native engine on ONE common scale (requested time / time step, interval / time step, t_max / time step are the physical ratios): grid and graph set-up routines, 3 engine kinds",
                               "sig": "c09-times-units", "structure": "script", "viol": "requested times (or interval / t_max) reach the engine on another scale than the time step: records are taken at other physical times than those requested"},
                              {"fn": "h_wrapper_no_sample", "what": "what is recorded is decided by the engine's sampling policy alone (proved on the engine AST): the wrapper makes no record of its own - set-up is ONE initialize call, "
                               "iterate / iterate_n / run make no sample call, a user sample() makes exactly one (3 engines x grid/graph x 4 policies x requested list starting at 0 / after 0)",
                               "sig": "c09-wrapper-sample", "structure": "LibRDEngine", "viol": "the wrapper asks the engine for a record on its own (e.g. at set-up): the trajectory holds a record the sampling policy does not define"}])
