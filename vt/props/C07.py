"""C07 Stochastic engines take only legal steps, at the rates of the master equation."""
from .. import catalogue
from ..stochlegs import gillespie_stage1, gillespie_stage2, tauleap_step
from ..cxx.engine import ast_info, program


def structures(tier, seed):
    if tier == "quick":
        return [("AB_rev", ("grid", 2, 1, 1, 0)), ("order3_repeat", ("graph", "pair")), ("dimer_source", ("grid", 2, 1, 1, 1)),
                ("ABC_bi", ("graph", "triangle")), ("chstt_B", ("grid", 1, 2, 1, 2)), ("AB_rev", ("grid", 1, 1, 1, 1)),
                ("none", ("graph", "path_isolated")), ("AB_rev", ("graph", "parallel")), ("AB_rev", ("graph", "selfloop")),
                ("AB_rev", ("grid", 1, 1, 3, 3)), ("none", ("grid", 1, 2, 2, 2))]        # z axis extended: periodic in z only / in y only
    return [p for p in catalogue.pairs("thorough", seed, engine_multigraph=True) if p[0] != "order4" or p[1][0] == "graph" or p[1][1] * p[1][2] * p[1][3] <= 2]


def run(rec):
    program()
    rec.extra["ast"] = ast_info()
    rec.assume("doubles are exact reals; uniform draws are arbitrary u in [0,1) (contract of uniform_real_distribution); Poisson draws are arbitrary integers >= 0 (0 when the mean is 0); log is uninterpreted with log(y) > 0 for y > 1")
    rec.assume("compositional cut at the propensity tables: stage 2 assumes only what stage 1 proves (tables non-negative, structurally-zero entries 0, partial sums consistent)")
    rec.assume("statistics of std::mt19937 / poisson_distribution and IEEE rounding in the cumulative sums are outside the claim")
    rec.bound("state", "arbitrary non-negative reals (stage 1, tau-leap) / integer-valued for the legality obligations")
    for fn in ("Gillespie3D/GillespieGraph::ComputePropensities, DrawAndApplyEvent, ApplyReaction, ApplyDiffusion, Iterate", "ReactionProp", "DiffusionProp",
               "TauLeap3D/TauLeapGraph::Compute_nevt, Apply_nevt, Iterate", "Build_mesh_kr/Build_mesh_kd", "engineexport_initialize_*/iterate/get_state"):
        rec.encoded(fn)
    items = []
    for netname, sd in structures(rec.tier, rec.seed):
        items += [(netname, sd, "gillespie"), (netname, sd, "tauleap")]
    rec.parallel(_work, items, item_budget_s=240 if rec.tier == "quick" else 900)


def _work(rec, item):
    netname, sd, eng = item
    if eng == "gillespie":
        facts = gillespie_stage1(rec, netname, sd)
        gillespie_stage2(rec, facts, netname, sd)
    else:
        tauleap_step(rec, netname, sd)
