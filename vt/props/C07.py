"""C07 Stochastic engines take only legal steps, at the rates of the master equation."""
from .. import catalogue
from ..stochlegs import gillespie_stage1, gillespie_stage2, tauleap_step
from ..cxx.engine import ast_info, program


def structures(tier, seed):
    if tier == "quick":
        return [("AB_rev", ("grid", 2, 1, 1, 0)), ("order3_repeat", ("graph", "pair")), ("dimer_source", ("grid", 2, 1, 1, 1)),
                ("ABC_bi", ("graph", "triangle")), ("chstt_B", ("grid", 1, 2, 1, 2)), ("AB_rev", ("grid", 1, 1, 1, 1)),
                ("none", ("graph", "path_isolated")), ("AB_rev", ("graph", "parallel")), ("AB_rev", ("graph", "selfloop")),
                ("AB_rev", ("grid", 1, 1, 3, 3)), ("none", ("grid", 1, 2, 2, 2)), ("quad", ("grid", 2, 1, 1, 1)), ("quad", ("graph", "pair"))]        # z axis extended: periodic in z only / in y only
    return [p for p in catalogue.pairs("thorough", seed, engine_multigraph=True) if p[0] != "order4" or p[1][0] == "graph" or p[1][1] * p[1][2] * p[1][3] <= 2]


def run(rec):
    program()
    rec.extra["ast"] = ast_info()
    rec.assume("doubles are exact reals; uniform draws are arbitrary u in [0,1) (contract of uniform_real_distribution); Poisson draws are arbitrary integers >= 0 (0 when the mean is 0); log is uninterpreted with log(y) > 0 for y > 1")
    rec.assume("compositional cut at the propensity tables: stage 2 assumes only what stage 1 proves (tables non-negative, structurally-zero entries 0, partial sums consistent)")
    rec.assume("statistics of std::mt19937 / poisson_distribution and IEEE rounding in the cumulative sums are outside the claim")
    rec.bound("state", "arbitrary non-negative reals (stage 1, tau-leap) / integer-valued for the legality obligations")
    for fn in ("Gillespie3D/GillespieGraph::ComputePropensities, DrawAndApplyEvent, ApplyReaction, ApplyDiffusion, Iterate", "ReactionProp", "DiffusionProp",
               "TauLeap3D/TauLeapGraph::Compute_nevt, Apply_nevt, Iterate", "Build_mesh_kr/Build_mesh_kd", "engineexport_initialize_*/iterate/get_state"):
        rec.encoded(fn)
    items = []
    for netname, sd in structures(rec.tier, rec.seed):
        items += [(netname, sd, "gillespie"), (netname, sd, "tauleap")]
    rec.parallel(_work, items, item_budget_s=240 if rec.tier == "quick" else 900)
    py_units_leg(rec)


def _work(rec, item):
    netname, sd, eng = item
    if eng == "gillespie":
        facts = gillespie_stage1(rec, netname, sd)
        gillespie_stage2(rec, facts, netname, sd)
    else:
        tauleap_step(rec, netname, sd)


def py_units_leg(rec):
    """The propensities the engines compute are 'combinatorial counts x volume-scaled constants' of the numbers they RECEIVE: the rate
    constants, volumes and diffusion coefficients handed to a stochastic engine must be the model's, expressed per molecule, whatever
    units the script is written or reported in (the engine legs above run in default units)."""
    from .. import pysym
    text = '''from harness.c04lib import *


def h_stoch_abi_units(lv: int, u: int, eu: int, opt: int, ex: int, g: int) -> bool:
    """
    pre: 0 <= lv <= 4 and 0 <= u <= 10 and eu == (u * 3 + lv + 1) % 11 and 1 <= opt <= 2 and ex == (u + lv) % 3 and 0 <= g <= 1
    post: _
    """
    return abi_invariance(lv, u, eu, opt, ex, g)
'''
    mod = pysym.write_module("hgen_C07", text)
    pysym.run_auto(rec, mod, [{"fn": "h_stoch_abi_units", "what": "what reaches a stochastic engine (state in molecules, volumes, rate constants of orders 1 and 2 per molecule, D, times), re-expressed in SI, does not depend on the units "
                               "the model is written in nor on the output units system (11 systems x nesting level x tau-leap / Gillespie x grid / graph)", "sig": "c07-abi-units", "structure": "marshalling",
                               "viol": "a stochastic engine receives rate constants / amounts that are not the model's per-molecule values: propensities are off by a units factor"}])
