"""C15 Grid geometry is consistent everywhere, and a grid equals its graph."""
import sys
import time

import z3

from ..common import SRC, VERIF
from .. import catalogue, pysym
from ..oracle import SymTab, rate_law, grid_neighbor
from ..enginelegs import euler_step_terms, state_term, volumes_of, _collect_safety
from ..stochlegs import _prove
from ..cxx.engine import ast_info, program, Interp, explore, Vec, is_sym


# ----------------------------------------------------------------------------- engine: GetNeighborIndex / BuildMeshNeighbors
def _spec_term(w, h, d, bc, x, y, z, direction):
    per = catalogue.BCS[bc]
    res = z3.IntVal(-1)
    for dr in range(5, -1, -1):
        axis = dr // 2
        step = 1 if dr % 2 == 0 else -1
        c = [x, y, z]
        L = (w, h, d)[axis]
        nc = c[axis] + step
        inr = z3.And(nc >= 0, nc < L)
        periodic = per.get("xyz"[axis]) == "periodical" and L > 1
        wrapped = z3.If(nc < 0, nc + L, z3.If(nc >= L, nc - L, nc))
        c2 = list(c)
        c2[axis] = wrapped if periodic else nc
        idx = c2[0] + w * c2[1] + w * h * c2[2]
        val = idx if periodic else z3.If(inr, idx, z3.IntVal(-1))
        res = z3.If(direction == dr, val, res)
    return res


def engine_neighbors(rec, item):
    w, h, d, bc = item
    desc = "engine neighbour index %dx%dx%d bc%d" % (w, h, d, bc)
    rec.structure(desc)
    per = catalogue.BCS[bc]
    bcv = [1 if per.get(a) == "periodical" else 0 for a in "xyz"]
    x, y, z, dr = z3.Ints("x y z direction")

    def body(I):
        o = I.new_obj("Euler3D")
        o.fields["w"].set(w)
        o.fields["h"].set(h)
        o.fields["d"].set(d)
        o.fields["boundary_conditions"].set(Vec(list(bcv), "int", name="boundary_conditions"))
        I.assume(z3.And(x >= 0, x < w, y >= 0, y < h, z >= 0, z < d, dr >= 0, dr <= 5))
        I.summarise = set()
        return I.call_method(o, "GetNeighborIndex", [x, y, z, dr])

    n = 0
    for pr in explore(program(), body, max_paths=200):
        if pr.I is None or pr.ended:
            rec.oblig("GetNeighborIndex exploration", "inconclusive", pr.ended, structure=desc)
            continue
        I = pr.I
        n += 1
        rec.paths += 1
        _collect_safety(rec, I, desc)
        _prove(rec, I, "GetNeighborIndex(x,y,z,direction) equals the specification neighbour (symbolic cell and direction)", I.tosym(pr.value) == _spec_term(w, h, d, bc, x, y, z, dr), desc,
               lambda m: rec.violation("c15-engine-neighbor", "the engine's neighbour index differs from the grid specification (%s)" % desc, {"structure": desc, "model": str(m)[:300]},
                                       replayed=_replay_engine_neighbors(w, h, d, bc)))
    rec.vacuity_witness(desc, n > 0, "%d paths" % n)
    # the table built by Init, concretely, plus the opposite-direction pairing
    I = Interp(program())
    o = I.new_obj("Euler3D")
    o.fields["w"].set(w)
    o.fields["h"].set(h)
    o.fields["d"].set(d)
    o.fields["boundary_conditions"].set(Vec(list(bcv), "int"))
    I.call_method(o, "BuildMeshNeighbors", [])
    tab = o.field("mesh_neighbors").elems
    import types
    sp = types.SimpleNamespace(w=w, h=h, d=d, get_boundary_conditions=lambda: {a: per.get(a, "reflecting") for a in "xyz"})
    ok = len(tab) == 6 * w * h * d
    opp = [1, 0, 3, 2, 5, 4]
    for i in range(w * h * d):
        for nn in range(6):
            j = grid_neighbor(sp, i, nn)
            ok = ok and tab[i * 6 + nn] == (-1 if j is None else j)
            if j is not None and ok:
                ok = ok and tab[j * 6 + opp[nn]] == i
    rec.oblig("BuildMeshNeighbors table equals the specification; neighbours[neighbours[i][n]][opposite(n)] == i", "holds" if ok else "violated", "", 0, desc)
    if not ok:
        rec.violation("c15-engine-neighbor-table", "the engine's neighbour table differs from the grid specification (%s)" % desc, {"structure": desc}, replayed=_replay_engine_neighbors(w, h, d, bc))


def engine_neighbors_symbolic_shape(rec, item):
    """GetNeighborIndex with the SHAPE and the boundary flags as solver variables too: one proof for every grid of 1..N cells per axis."""
    N = item[0]
    desc = "engine neighbour index, shape symbolic in [1,%d]^3, boundary flags symbolic" % N
    rec.structure(desc)
    w, h, d, x, y, z, dr, px, py, pz = z3.Ints("w h d x y z direction px py pz")

    def spec():
        res = z3.IntVal(-1)
        for k in range(5, -1, -1):
            axis, step = k // 2, (1 if k % 2 == 0 else -1)
            c, L, p = [x, y, z], (w, h, d)[axis], (px, py, pz)[axis]
            nc = c[axis] + step
            inr = z3.And(nc >= 0, nc < L)
            periodic = z3.And(p == 1, L > 1)
            c2 = list(c)
            c2[axis] = z3.If(periodic, z3.If(nc < 0, nc + L, z3.If(nc >= L, nc - L, nc)), nc)
            res = z3.If(dr == k, z3.If(z3.Or(periodic, inr), c2[0] + w * c2[1] + w * h * c2[2], z3.IntVal(-1)), res)
        return res

    def body(I):
        o = I.new_obj("Euler3D")
        o.fields["w"].set(w)
        o.fields["h"].set(h)
        o.fields["d"].set(d)
        o.fields["boundary_conditions"].set(Vec([px, py, pz], "int", name="boundary_conditions"))
        I.assume(z3.And(w >= 1, w <= N, h >= 1, h <= N, d >= 1, d <= N, x >= 0, x < w, y >= 0, y < h, z >= 0, z < d, dr >= 0, dr <= 5,
                        px >= 0, px <= 1, py >= 0, py <= 1, pz >= 0, pz <= 1))
        I.summarise = set()
        return I.call_method(o, "GetNeighborIndex", [x, y, z, dr])

    def on_violation(I, claim):
        def cb(m):
            # prefer a small counterexample for the replay
            I.solver.push()
            I.solver.add(z3.Not(claim), w <= 3, h <= 3, d <= 3)
            if str(I.solver.check()) == "sat":
                m = I.solver.model()
            I.solver.pop()
            g = lambda v: m.eval(v, model_completion=True).as_long()
            flags = {a: "periodical" for a, v in zip("xyz", (px, py, pz)) if g(v) == 1}
            bc = catalogue.BCS.index(flags)
            shape = (g(w), g(h), g(d))
            rep = _replay_engine_neighbors(*shape, bc) if shape[0] * shape[1] * shape[2] <= 64 else False
            rec.violation("c15-engine-neighbor", "the engine's neighbour index differs from the grid specification (%dx%dx%d, periodic %s, cell (%d,%d,%d), direction %d)"
                          % (shape + ("".join(sorted(flags)) or "-", g(x), g(y), g(z), g(dr))), {"structure": desc, "model": str(m)[:300]}, replayed=rep)
        return cb
    n = 0
    for pr in explore(program(), body, max_paths=200):
        if pr.I is None or pr.ended:
            rec.oblig("GetNeighborIndex exploration (symbolic shape)", "inconclusive", pr.ended, structure=desc)
            continue
        I = pr.I
        n += 1
        rec.paths += 1
        _collect_safety(rec, I, desc)
        claim = I.tosym(pr.value) == spec()
        _prove(rec, I, "GetNeighborIndex(x,y,z,direction) equals the specification neighbour for every shape in [1,%d]^3, every boundary combination, every cell and direction (all solver variables)" % N,
               claim, desc, on_violation(I, claim))
    rec.vacuity_witness(desc, n > 0, "%d paths" % n)


def _replay_engine_neighbors(w, h, d, bc):
    """real build: one Euler step of pure diffusion from a one-hot state must move mass exactly to the specification neighbours"""
    try:
        from ..enginelegs import real_run, make_script
        sd = ("grid", w, h, d, bc, [0] * (w * h * d))
        system = catalogue.build("none", sd)
        nc = w * h * d
        import types
        bad = False
        for i in range(nc):
            st = [0.0] * (2 * nc)
            st[i] = 1000.0
            system.state = st
            data, _ = real_run(make_script(system, "euler", 0.001, policy="on_iteration"), "euler", 1)
            s1 = data[2 * nc:2 * nc + nc]
            got = {j for j in range(nc) if j != i and s1[j] > 0}
            want = {grid_neighbor(system.space, i, n) for n in range(6)} - {None, i}
            if got != want:
                bad = True
        if not bad:
            # a cell that is its own neighbour carries no net Euler flux: look for no-op / illegal Gillespie events instead
            from ..stochlegs import audit_real
            system.state = [30.0] * (2 * nc)
            a = audit_real(system, "gillespie", seeds=range(1, 4), steps=80)
            bad = "noop-event" in a or "illegal-event" in a
        return bad
    except Exception:
        return False


# ----------------------------------------------------------------------------- grid == graph (Euler step, tag-traced)
def grid_graph_equiv(rec, item):
    netname, sd = item
    if SRC not in sys.path:
        sys.path.insert(0, SRC)
    from strengths import RDSystem
    from strengths.coarsegrain import grid_to_graph
    desc = "grid == graph: " + catalogue.describe(netname, sd)
    rec.structure(desc)
    gsys = catalogue.build(netname, sd)
    graph = grid_to_graph(gsys.space)
    # conversion preserves volumes, environments, adjacency, face surface and edge distance
    sp = gsys.space
    h_edge = round(float(sp.cell_vol.value) ** (1.0 / 3.0), 9)
    okv = all(abs(n.volume.value - sp.cell_vol.value) < 1e-12 for n in graph.nodes) and [int(n.environment) for n in graph.nodes] == [int(e) for e in sp.cell_env]
    want = {}
    for i in range(sp.size()):
        for n in range(0, 6, 2):
            j = grid_neighbor(sp, i, n)
            if j is not None:
                key = (min(i, j), max(i, j))
                want[key] = want.get(key, 0) + 1
    got = {}
    okgeo = True
    for e in graph.edges:
        key = (min(e.i, e.j), max(e.i, e.j))
        got[key] = got.get(key, 0) + 1
        okgeo = okgeo and abs(e.surface.value - h_edge ** 2) < 1e-9 and abs(e.distance.value - h_edge) < 1e-9
    # a periodic axis of length 1 gives the graph a self-loop (no net flux); ignore self pairs on both sides
    got = {k: v for k, v in got.items() if k[0] != k[1]}
    want = {k: v for k, v in want.items() if k[0] != k[1]}
    oka = got == want
    rec.oblig("grid_to_graph keeps volumes and environments", "holds" if okv else "violated", "", 0, desc)
    rec.oblig("grid_to_graph: one edge per shared face, surface = face area, distance = cell edge", "holds" if (oka and okgeo) else "violated", {"got": str(got)[:200], "want": str(want)[:200]}, 0, desc)
    if not (okv and oka and okgeo):
        rec.violation("c15-grid-to-graph", "grid_to_graph does not preserve volumes/environments/adjacency/surface/distance (%s)" % desc, {"structure": desc, "got": str(got)[:300], "want": str(want)[:300]})
    # Euler step on the grid == Euler step on the graph, for every state, k, D (same tags => same solver variables)
    qsys = RDSystem(gsys.network, graph, state=[float(v) for v in gsys.state.value], chemostats=[int(c) for c in gsys.chemostats])
    st = SymTab(concrete=volumes_of(gsys) + [h_edge ** 2, h_edge])
    terms = []
    for system in (gsys, qsys):
        for pr, named_s in euler_step_terms(system, st, fields=("state", "k", "D", "dt")):
            if pr.I is not None and not pr.ended:
                terms.append((pr.I, pr.value))
                _collect_safety(rec, pr.I, desc)
                break
    if len(terms) != 2:
        rec.oblig("grid/graph Euler runs", "inconclusive", "a run did not complete", 0, desc)
        return
    (I1, (n1, d1, t1)), (I2, (n2, d2, t2)) = terms
    ns, nc = len(gsys.network.species), sp.size()
    for s in range(ns):
        for i in range(nc):
            k = ns * nc + s * nc + i
            _prove(rec, I1, "Euler step on the grid == Euler step on grid_to_graph(grid) [species %d, cell %d]" % (s, i), I1.toreal(d1[k]) == I2.toreal(d2[k]), desc,
                   lambda m: rec.violation("c15-grid-graph-euler", "one Euler step on a grid differs from the step on its graph (%s)" % desc, {"structure": desc, "model": str(m)[:300]}))
    # rate law on the grid == rate law on the graph (the reference both Python kinetics legs are compared with in C01)
    X = state_term(gsys, st)
    l1, l2 = rate_law(gsys, st, X), rate_law(qsys, st, X)
    I = Interp(program())
    for c in st.positivity():
        I.assume(c)
    for key in l1:
        _prove(rec, I, "reference rate law: grid == graph %s" % (key,), l1[key] == l2[key], desc)


# ----------------------------------------------------------------------------- bit-precise lemma for the float division in get_cell_coordinates
def fp_lemma(rec, W):
    """for 0 <= a < 2^W, 1 <= k < 2^W: trunc(float(a)/float(k)) == a div k in binary64 (py-sym models floats as reals)."""
    t0 = time.time()
    a, k = z3.BitVecs("a k", 64)
    s = z3.SolverFor("QF_FPBV") if hasattr(z3, "SolverFor") else z3.Solver()
    s.set("timeout", 120000 if rec.tier == "quick" else 600000)
    s.add(z3.ULT(a, 1 << W), z3.ULT(k, 1 << W), z3.UGE(k, 1))
    fa = z3.fpSignedToFP(z3.RNE(), a, z3.Float64())
    fk = z3.fpSignedToFP(z3.RNE(), k, z3.Float64())
    q = z3.fpToSBV(z3.RTZ(), z3.fpDiv(z3.RNE(), fa, fk), z3.BitVecSort(64))
    s.add(q != z3.UDiv(a, k))
    r = s.check()
    rec.query(str(r), time.time() - t0)
    name = "binary64 lemma: int(a/k) == a // k for 0 <= a < 2^%d, 1 <= k < 2^%d (index <-> coordinates uses float division)" % (W, W)
    rec.oblig(name, "holds" if r == z3.unsat else ("violated" if r == z3.sat else "inconclusive"), "" if r != z3.unknown else "solver timeout", time.time() - t0, "QF_BVFP")
    if r == z3.sat:
        m = s.model()
        rec.violation("c15-fp-division", "int(a/k) != a//k for a=%s k=%s" % (m[a], m[k]), {"a": str(m[a]), "k": str(m[k])})


def gen(tier, seed):
    L = ["from harness.c15lib import *", ""]
    conds = []

    def add(fn, sig, body, pre, what, args, timeout=None, viol=None):
        fn = "h_" + fn
        L.extend(["def %s(%s) -> bool:" % (fn, args), '    """'] + ["    " + p for p in pre] + ["    post: _", '    """', "    return " + body, ""])
        c = {"fn": fn, "what": what, "sig": sig, "structure": "grid"}
        if timeout:
            c["timeout"] = timeout
        if viol:
            c["viol"] = viol
        conds.append(c)
    shapes = [(1, 1, 1), (2, 1, 1), (1, 3, 1), (2, 2, 1), (3, 2, 2), (1, 1, 2), (4, 1, 3)] if tier == "quick" else [(w, h, d) for w in (1, 2, 3, 4) for h in (1, 2, 3) for d in (1, 2, 3) if w * h * d <= 24] + [(3, 4, 5)]
    k = 0
    for (w, h, d) in shapes:
        n = w * h * d
        bcs = ([(k + j * 3) % 8 for j in range(2)] if (w, h, d) != (4, 1, 3) else [1, 3, 5, 7]) if tier == "quick" else range(8)
        k += 1
        tag = "%d%d%d" % (w, h, d)
        add("bij_%s" % tag, "c15-bijection", "bijection(%d, %d, %d, 0, i)" % (w, h, d), ["pre: 0 <= i < %d" % n],
            "index <-> coordinates bijection with index = z*w*h + y*w + x; tuple / list / object / linear forms agree (%dx%dx%d, cell symbolic)" % (w, h, d), "i: int", timeout=180)
        add("c2i_%s" % tag, "c15-bijection", "coords_to_index(%d, %d, %d, 0, x, y, z)" % (w, h, d), ["pre: 0 <= x < %d and 0 <= y < %d and 0 <= z < %d" % (w, h, d)],
            "coordinates -> index -> coordinates (%dx%dx%d)" % (w, h, d), "x: int, y: int, z: int", timeout=180)
        add("rej_i_%s" % tag, "c15-index-rejected", "index_rejected(%d, %d, %d, 0, i)" % (w, h, d), ["pre: -64 <= i <= %d" % (n + 64), "pre: i < 0 or i >= %d" % n],
            "every linear index in [-64, %d] outside [0, %d) is rejected by every accessor" % (n + 64, n), "i: int", timeout=120,
            viol="an out-of-range linear index is accepted")
        if k <= 2:
            add("rej_iu_%s" % tag, "c15-index-rejected", "index_rejected(%d, %d, %d, 0, i)" % (w, h, d), ["pre: i < 0 or i >= %d" % n],
                "every linear index outside [0, %d) is rejected (index symbolic and UNBOUNDED: CrossHair searches for a counterexample; the error messages format the index, so the path tree cannot be exhausted)" % n,
                "i: int", timeout=30, viol="an out-of-range linear index is accepted")
        add("rej_c_%s" % tag, "c15-coords-rejected", "coords_rejected(%d, %d, %d, 0, x, y, z)" % (w, h, d),
            ["pre: not (0 <= x < %d and 0 <= y < %d and 0 <= z < %d)" % (w, h, d), "pre: -3 <= x <= %d and -3 <= y <= %d and -3 <= z <= %d" % (w + 2, h + 2, d + 2)],
            "every coordinate triple outside the grid is rejected in tuple and object form (%dx%dx%d)" % (w, h, d), "x: int, y: int, z: int", timeout=180,
            viol="an out-of-range coordinate triple is accepted")
        for bc in bcs:
            add("gadj_%s_%d" % (tag, bc), "c15-graph-adjacency", "graph_adjacency(%d, %d, %d, %d, i, j)" % (w, h, d, bc), ["pre: 0 <= i < %d and 0 <= j < %d" % (n, n)],
                "on grid_to_graph(grid): get_edge (both argument orders), are_neighbors and get_neighbors agree with the grid's neighbour relation; contacts carry a cell face and the cell edge (%dx%dx%d, boundary combination %d)" % (w, h, d, bc),
                "i: int, j: int", timeout=240, viol="the graph made from a grid loses or misreports a contact of the grid")
            if n > 1:
                add("gkin_%s_%d" % (tag, bc), "c15-graph-kinetics", "graph_kinetics(%d, %d, %d, %d, i)" % (w, h, d, bc), ["pre: 0 <= i < %d" % n],
                    "the Python rate of change on grid_to_graph(grid) equals the one on the grid (diffusion from a one-hot state in every cell; %dx%dx%d, boundary combination %d; a periodic axis of length 2 is outside the property for the Python functions)" % (w, h, d, bc),
                    "i: int", timeout=240, viol="the rate law on the graph made from a grid differs from the rate law on the grid")
            add("gridkin_%s_%d" % (tag, bc), "c15-grid-kinetics", "grid_kinetics_ref(%d, %d, %d, %d, i)" % (w, h, d, bc), ["pre: 0 <= i < %d" % n],
                "the Python rate of change on the grid equals the law summed over the six directions of the specification relation, incl. the double contact of a periodic axis of length 2 (%dx%dx%d, boundary combination %d)" % (w, h, d, bc),
                "i: int", timeout=240, viol="the kinetics functions do not use the grid's neighbour relation")
            add("nbr_%s_%d" % (tag, bc), "c15-neighbor-relation", "neighbor_relation(%d, %d, %d, %d, i, j)" % (w, h, d, bc), ["pre: 0 <= i < %d and 0 <= j < %d" % (n, n)],
                "are_neighbors is symmetric and equals the specification relation (%dx%dx%d, boundary combination %d, both cells symbolic)" % (w, h, d, bc), "i: int, j: int", timeout=240)
            add("nq_%s_%d" % (tag, bc), "c15-neighbor-query", "neighbor_query(%d, %d, %d, %d, i)" % (w, h, d, bc), ["pre: 0 <= i < %d" % n],
                "get_neighbors, as a set, equals the specification relation (%dx%dx%d, boundary combination %d)" % (w, h, d, bc), "i: int", timeout=180,
                viol="get_neighbors disagrees with the neighbour relation between distinct cells")
    for (w, h, d) in ((3, 1, 1), (2, 2, 1), (1, 3, 2)):
        add("bc_switch_%d%d%d" % (w, h, d), "c15-boundary-switch", "bc_switch(%d, %d, %d, bc1, bc2, i)" % (w, h, d), ["pre: 0 <= bc1 <= 7 and 0 <= bc2 <= 7 and 0 <= i < %d" % (w * h * d)],
            "the neighbour query and the pairwise test follow the CURRENT boundary setting: after a query under one setting the grid (or a copy of it) is switched to another with set_boundary_conditions and must answer like a grid built with the new setting (%dx%dx%d, all 8 x 8 settings, every first-queried cell)" % (w, h, d),
            "bc1: int, bc2: int, i: int", viol="after the boundary conditions of a grid are changed, a neighbour query still answers for the old setting")
    add("space_after_edit", "c15-space-after-edit", "space_after_edit(kind, how)", ["pre: 0 <= kind <= 1 and 0 <= how <= 4"],
        "a space that has already answered every geometry query and is then EDITED (grid: cell volume, environment map, units system, boundary conditions, two at once; graph: a node's volume / environment, an edge's surface / distance, "
        "several of them, the units system) answers every query (volumes, environments, neighbours, pairwise test, edges) like a space built afresh with the edited content", "kind: int, how: int",
        viol="a space edited after its first use still answers from data derived before the edit")
    add("abi_boundary", "c15-abi-boundary", "abi_boundary(w, h, d, bc)", ["pre: 1 <= w <= 2 and 1 <= h <= 2 and 1 <= d <= 2 and 0 <= bc <= 7"],
        "LibRDEngine hands the native engine the grid's sizes in the order (w, h, d) and each axis' OWN boundary condition (all 8 combinations, sizes 1..2 per axis, deterministic and stochastic engines)",
        "w: int, h: int, d: int, bc: int", viol="the boundary condition or size of one axis reaches the native engine under another axis")
    return "\n".join(L), conds


def _work(rec, item):
    if item[0] == "engine":
        engine_neighbors(rec, item[1:])
    elif item[0] == "engine_symshape":
        engine_neighbors_symbolic_shape(rec, item[1:])
    else:
        grid_graph_equiv(rec, item[1:])


def run(rec):
    program()
    rec.extra["ast"] = ast_info()
    rec.assume("engine neighbour index: one leg has shape (1..1000 per axis), boundary flags, cell and direction ALL as solver variables (mathematical integers: w*h*d < 2^31 assumed, as everywhere); in the other legs shapes and boundary combinations are enumerated (concrete), cells / coordinates / directions are solver variables; py-sym models int(a/k) on floats as real division + truncation, the binary64 lemma covers the float step up to the stated width")
    rec.assume("grid == graph: Euler3D and EulerGraph steps are executed symbolically through the tag-traced ABI on the system and on grid_to_graph(system.space) with the SAME solver variables for state, k, D, dt; a periodic axis of length 1 gives the graph a self-loop, which carries no net flux")
    rec.assume("the Python kinetics functions are compared with the reference rate law in C01 (py-sym leg); here the reference law on the grid is proved equal to the reference law on the graph")
    for fn in ("RDGridSpace.get_cell_index/get_cell_coordinates/is_within_bounds/are_neighbors/get_neighbors", "SimulationAlgorithm3DBase::GetNeighborIndex/BuildMeshNeighbors",
               "coarsegrain.grid_to_graph", "Euler3D::Iterate vs EulerGraph::Iterate"):
        rec.encoded(fn)
    q = rec.tier == "quick"
    items = []
    shapes = [(1, 1, 1), (2, 1, 1), (1, 2, 1), (3, 1, 1), (2, 2, 1), (1, 1, 3), (3, 2, 2)] if q else [(w, h, d) for w in (1, 2, 3) for h in (1, 2, 3) for d in (1, 2, 3)] + [(4, 1, 1), (3, 4, 5)]
    for k, (w, h, d) in enumerate(shapes):
        for bc in ([(k * 3) % 8, (k * 3 + 5) % 8, 7] if q else range(8)):
            items.append(("engine", w, h, d, bc))
    eq = [("AB_rev", ("grid", 2, 1, 1, 0)), ("ABC_bi", ("grid", 3, 1, 1, 1)), ("AB_rev", ("grid", 2, 2, 1, 4)), ("none", ("grid", 1, 1, 1, 7)), ("dimer_source", ("grid", 2, 1, 1, 1)),
          ("none", ("grid", 1, 2, 1, 0)), ("none", ("grid", 1, 1, 2, 3)), ("AB_rev", ("grid", 1, 3, 1, 2))]     # flat grids: w == 1 with h >= 2, h == 1 with d >= 2 (strides coincide)
    if not q:
        eq += [("ABC_bi", ("grid", 2, 2, 2, 7)), ("order3_repeat", ("grid", 3, 2, 1, 5)), ("AB_rev", ("grid", 4, 1, 1, 1)), ("chstt_B", ("grid", 1, 3, 1, 2))]
    items += [("equiv",) + e for e in eq]
    items.append(("engine_symshape", 1000))
    rec.parallel(_work, items)
    # the STOCHASTIC grid engines use the same relation: their diffusion channels (one per species, cell and neighbour of the table) are
    # compared with the specification built from the Python side's neighbour relation - the legs of C07, on grids, under this property
    rec.assume("stochastic grid engines: the propensity tables (Gillespie) and the Poisson means (tau-leap) have exactly one diffusion channel per (species, cell, neighbour of the specification relation), cell 0 and wrap contacts included (C07's legs on 3 grids)")
    rec.encoded("Gillespie3D::ComputePropensities / TauLeap3D::Compute_nevt, Apply_nevt (diffusion channels follow the neighbour table)")
    from .C07 import _work as c07_work
    rec.parallel(c07_work, [("none", ("grid", 3, 1, 1, 1), "tauleap"), ("none", ("grid", 2, 2, 1, 0), "tauleap"), ("none", ("grid", 3, 1, 1, 1), "gillespie"), ("none", ("grid", 1, 2, 2, 2), "gillespie")],
                 item_budget_s=240)
    fp_lemma(rec, 8 if q else 12)
    text, conds = gen(rec.tier, rec.seed)
    mod = pysym.write_module("hgen_C15", text)
    pysym.run_auto(rec, mod, conds, default_timeout=120)
