"""C16 Coarse-graining conserves matter and geometry; un-coarse-graining inverts it."""
import sys

import z3

from ..common import SRC
from .. import catalogue, pysym
from ..oracle import SymTab
from ..enginelegs import euler_step_terms, volumes_of, _collect_safety
from ..stochlegs import _prove
from ..cxx.engine import ast_info, program


def gen(tier, seed):
    L = ["from harness.c16lib import *", ""]
    conds = []

    def add(fn, sig, body, pre, what, args, timeout=None, viol=None):
        fn = "h_" + fn
        L.extend(["def %s(%s) -> bool:" % (fn, args), '    """'] + ["    " + p for p in pre] + ["    post: _", '    """', "    return " + body, ""])
        c = {"fn": fn, "what": what, "sig": sig, "structure": "coarse-graining"}
        if timeout:
            c["timeout"] = timeout
        if viol:
            c["viol"] = viol
        conds.append(c)
    q = False   # index maps are enumerated exhaustively in plain CPython: full boxes in both tiers
    spaces = [((2, 1, 1), None, [(-1, 1), (-1, 1)]), ((3, 1, 1), None, [(-1, 1), (-1, 1), (-1, 1)] if q else [(-1, 2)] * 3),
              ((2, 2, 1), None, [(-1, 1), (0, 1), (-1, 0), (0, 1)] if q else [(-1, 2)] * 4),
              ((3, 1, 1), (0, 1, 0), [(-1, 1), (-1, 1), (-1, 1)] if q else [(-1, 2)] * 3),
              ((2, 2, 1), (0, 1, 0, 1), [(-1, 0), (-1, 1), (-1, 1), (-1, 0)] if q else [(-1, 1)] * 4)]
    spaces += [((1, 1, 3), None, [(-1, 2)] * 3)]
    # 3-D grids whose cross-section is not square (w != h): the z stride is w*h, not w*w or h*h
    spaces += [((1, 2, 2), None, [(-1, 2)] * 4), ((2, 1, 2), None, [(-1, 1)] * 4)]
    if tier != "quick":
        spaces += [((2, 2, 2), None, [(-1, 1)] * 8)]
    for k, (shape, envs, ranges) in enumerate(spaces):
        n = len(ranges)
        args = ", ".join("m%d: int" % i for i in range(n))
        pre = " and ".join("%d <= m%d <= %d" % (lo, i, hi) for i, (lo, hi) in enumerate(ranges))
        mp = "[%s]" % ", ".join("m%d" % i for i in range(n))
        tag = "%d_%s" % (k, "".join(map(str, shape)))
        desc = "%dx%dx%d grid%s, index map symbolic in %s" % (shape + ("" if envs is None else " envs %s" % (envs,), ranges))
        add("accept_%s" % tag, "c16-accept-iff-valid", "accept_iff_valid(%r, %s, %r)" % (shape, mp, envs), ["pre: " + pre],
            "an index map is accepted exactly when it is valid by the documented rules (%s)" % desc, args, timeout=600,
            viol="an index map that is valid by the documented rules is rejected, or an invalid one accepted")
        add("conserve_%s" % tag, "c16-conserve", "conserves(%r, %s, %r)" % (shape, mp, envs), ["pre: " + pre],
            "accepted maps keep volume, per-species amounts, group environment, chemostat OR, edge set = groups sharing a face, surface = faces x h^2, centroid distance, no self-loop / duplicate (%s)" % desc,
            args, timeout=600)
        if envs is None and len(ranges) <= 4:
            for un in (1, 2):
                add("units%d_%s" % (un, tag), "c16-conserve-units", "amounts_conserved(%r, %s, %d)" % (shape, mp, un), ["pre: " + pre],
                    "species totals and total volume are conserved in SI when the state is given in other units than the system's (%s) (%s)" % (["", "state as a UnitArray in fmol", "network in mm/min/mmol, space in dm/s/mol, default state"][un], desc),
                    args, timeout=600, viol="coarse-graining changes the physical amounts when state / network / space use other units than the system")
        add("ucg_%s" % tag, "c16-uncoarsegrain", "uncoarsegrain_ok(%r, %s, %r)" % (shape, mp, envs), ["pre: " + pre],
            "un-coarse-graining spreads each group value evenly (totals preserved, members equal, dropped cells 0) (%s)" % desc, args, timeout=600)
    L.extend(["def h_simulate_sto(k: int, opt: int, mode: int) -> bool:", '    """', "    pre: 0 <= k <= 2 and 0 <= opt <= 1 and 0 <= mode <= 1", "    post: _", '    """', "    return simulate_stochastic_map(k, opt, mode)", ""])
    conds.append({"fn": "h_simulate_sto", "what": "stochastic engines through a coarse-graining map on the real build (identity and pairing maps, 3 grid shapes, tau-leap and Gillespie, 3 seeds): an immobile species keeps its per-cell amounts "
                  "(per-group totals) in every sample, mobile species keep their grand totals, amounts stay non-negative integers", "sig": "c16-simulate-cgmap-stochastic", "structure": "coarse-graining",
                  "viol": "a stochastic run through a coarse-graining map moves an immobile species (a diffusion channel carries another species' coefficient) or loses molecules"})
    L.extend(["def h_chem_dense(k: int, m: int, pat: int) -> bool:", '    """', "    pre: 0 <= k <= 2 and 0 <= m <= 2 and 0 <= pat <= 3", "    post: _", '    """', "    return chem_flags_dense(k, m, pat)", ""])
    conds.append({"fn": "h_chem_dense", "what": "dense chemostat maps (several flagged members of one species in one group, three species): every coarse flag is exactly 1 if any member is flagged and exactly 0 otherwise, in every species' block; "
                  "the exported right-hand side of a one-node coarse system holds flagged entries at rate 0", "sig": "c16-chemostat-flags", "structure": "coarse-graining",
                  "viol": "a coarse chemostat entry is not the 0/1 flag 'any member is chemostated' (e.g. the number of chemostated members)"})
    L.extend(["def h_simulate_map(k: int, mode: int, tu: int) -> bool:", '    """', "    pre: 0 <= k <= 3 and 0 <= mode <= 1 and 0 <= tu <= 3", "    post: _", '    """',
              "    return simulate_with_map([(2, 1, 1), (2, 2, 1), (1, 2, 2), (3, 1, 1)][k], mode, tu)", ""])
    conds.append({"fn": "h_simulate_map", "what": "simulate(..., cgmap=...) on the real build: the identity map reproduces the plain Euler run sample by sample; a pairing map returns a trajectory of the original shape with the same per-species totals at every sample (4 grid shapes; sample times as bare numbers, in ms and in min under a script in seconds, and two requested times closer than the time step)",
                  "sig": "c16-simulate-cgmap", "structure": "coarse-graining", "viol": "simulating through a coarse-graining map does not reproduce / conserve what the plain simulation gives"})
    return "\n".join(L), conds


def identity_leg(rec, item):
    netname, sd = item
    if SRC not in sys.path:
        sys.path.insert(0, SRC)
    from strengths.coarsegrain import coarsegrain_system
    desc = "identity map: " + catalogue.describe(netname, sd)
    rec.structure(desc)
    gsys = catalogue.build(netname, sd)
    cg = coarsegrain_system(gsys, list(range(gsys.space.size())))
    h_edge = round(float(gsys.space.cell_vol.value) ** (1.0 / 3.0), 9)
    st = SymTab(concrete=volumes_of(gsys) + [h_edge ** 2, h_edge])
    terms = []
    for system in (gsys, cg):
        for pr, named_s in euler_step_terms(system, st, fields=("state", "k", "D", "dt")):
            if pr.I is not None and not pr.ended:
                terms.append((pr.I, pr.value))
                _collect_safety(rec, pr.I, desc)
                break
    if len(terms) != 2:
        rec.oblig("identity-map Euler runs", "inconclusive", "a run did not complete", 0, desc)
        return
    (I1, (n1, d1, t1)), (I2, (n2, d2, t2)) = terms
    ns, nc = len(gsys.network.species), gsys.space.size()
    for s in range(ns):
        for i in range(nc):
            for rec_k in (0, 1):
                k = rec_k * ns * nc + s * nc + i
                _prove(rec, I1, "Euler record %d on coarsegrain_system(system, identity) == on system [species %d, cell %d]" % (rec_k, s, i), I1.toreal(d1[k]) == I2.toreal(d2[k]), desc,
                       lambda m: rec.violation("c16-identity", "simulating with the identity index map differs from the plain simulation (%s)" % desc, {"structure": desc, "model": str(m)[:300]}))


def run(rec):
    program()
    rec.extra["ast"] = ast_info()
    rec.assume("index maps are solver variables in the stated per-cell ranges (realised when they index numpy/lists: CrossHair enumerates every map of the box and reports 'Confirmed' only when all are done); states, volumes and chemostat maps are concrete with distinct values (linearity in the state makes one basis sufficient - stated, not proved)")
    rec.assume("identity map: the Euler engine is executed symbolically (state, k, D, dt solver variables) on coarsegrain_system(system, identity) and on system; reflecting grids only (coarse-graining requires them)")
    for fn in ("coarsegrain.check_index_map_validity", "coarsegrain_grid", "coarsegrain_system", "uncoarsegrain_trajectory_data", "grid_to_graph", "Euler3D/EulerGraph::Iterate (identity map)"):
        rec.encoded(fn)
    rec.parallel(identity_leg, [("AB_rev", ("grid", 2, 1, 1, 0)), ("ABC_bi", ("grid", 2, 2, 1, 0)), ("dimer_source", ("grid", 3, 1, 1, 0))] +
                 ([("order3_repeat", ("grid", 2, 2, 2, 0)), ("chstt_B", ("grid", 1, 3, 1, 0))] if rec.tier != "quick" else []))
    text, conds = gen(rec.tier, rec.seed)
    mod = pysym.write_module("hgen_C16", text)
    pysym.run_auto(rec, mod, conds, default_timeout=600)
