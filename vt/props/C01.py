"""C01 Deterministic rate law: mass-action reactions plus Bernstein diffusion."""
from .. import catalogue
from ..enginelegs import check_euler_step, validate_translator
from ..cxx.engine import ast_info, program


def run(rec):
    tier = rec.tier
    program()
    rec.extra["ast"] = ast_info()
    rec.assume("C++ doubles are modelled as exact reals (IEEE rounding is outside the claim)")
    rec.assume("volumes are concrete perfect cubes (cube roots exact); every other numeric input (state, k, D, surfaces, distances, dt) is a solver variable > 0 or the concrete 0 of the catalogue")
    rec.bound("structures", "catalogue of vt/catalogue.py (%s tier): <= 8 cells, <= 3 species, reaction orders 0..4" % tier)
    for fn in ("engineexport_initialize_grid", "engineexport_initialize_graph", "engineexport_iterate", "engineexport_get_trajectory",
               "SimulationAlgorithm3DBase::Init/Build_mesh_kr/Build_mesh_kd/ReactionRate/DiffusionRateDifference",
               "SimulationAlgorithmGraphBase::Init/SetNeighbors/Build_mesh_kr/Build_mesh_kd", "Euler3D::Iterate/Compute_dxdt/Apply_dxdt",
               "EulerGraph::Iterate", "LibRDEngine.setup/_setup_grid/_setup_graph (executed for real, recording stand-in for the CDLL)"):
        rec.encoded(fn)
    pairs = catalogue.pairs(tier, rec.seed, engine_multigraph=True)
    # translator validation: interpreter (concrete) == real .so, once per structure kind
    for netname, sd in pairs[:4] if tier == "quick" else pairs[::5]:
        validate_translator(rec, catalogue.build(netname, sd), desc=catalogue.describe(netname, sd))
    for netname, sd in pairs:
        check_euler_step(rec, netname, sd)
    # the cell volume as a solver variable too (grids; V = h^3): volume exponents of every reaction order
    for netname, sd in [("AB_rev", ("grid", 2, 1, 1, 0)), ("order3_repeat", ("grid", 1, 2, 1, 2)), ("dimer_source", ("grid", 2, 1, 1, 1))] + \
            ([("order4", ("grid", 2, 1, 1, 0)), ("ABC_bi", ("grid", 2, 2, 1, 4))] if tier != "quick" else []):
        check_euler_step(rec, netname, sd, label="euler step = law (symbolic cell volume)", sym_vol=True)
    from . import C01_py
    C01_py.run(rec)
