"""C13 Default state and chemostat map: density x volume, species-major layout."""
import random

from .. import pysym


def gen(tier, seed):
    rnd = random.Random(seed)
    L = ["from harness.c13lib import *", ""]
    conds = []

    def add(fn, sig, body, pre, what, args, timeout=None, viol=None):
        fn = "h_" + fn
        L.extend(["def %s(%s) -> bool:" % (fn, args), '    """'] + ["    " + p for p in pre] + ["    post: _", '    """', "    return " + body, ""])
        c = {"fn": fn, "what": what, "sig": sig, "structure": "system"}
        if timeout:
            c["timeout"] = timeout
        if viol:
            c["viol"] = viol
        conds.append(c)
    S = "ABCDEFGHIJK"
    combos = [("A", "A", "A", "A"), ("B", "C", "D", "E"), ("G", "B", "H", "A"), ("J", "K", "C", "F")]
    if tier != "quick":
        combos += [tuple(rnd.choice(S) for _ in range(4)) for _ in range(8)]
    for k, (un, us, up, uy) in enumerate(combos):
        for (w, h, d) in ((1, 1, 1), (2, 1, 1), (3, 1, 1), (2, 2, 1)):
            n = w * h * d
            args = ", ".join("e%d: int" % i for i in range(n))
            emax = 2
            pre = " and ".join("0 <= e%d <= %d" % (i, emax) for i in range(n))
            add("default_grid_%d_%d%d%d" % (k, w, h, d), "c13-default-grid", "default_grid(%d, %d, %d, [%s], %r, %r, %r, %r)" % (w, h, d, ", ".join("e%d" % i for i in range(n)), un, us, up, uy),
                ["pre: " + pre], "default state = density(env) x volume, default chemostats = flag(env), species-major, for EVERY environment map of a %dx%dx%d grid (units: network %s, species %s, space %s, system %s)" % (w, h, d, un, us, up, uy),
                args, timeout=300)
        add("default_graph_%d" % k, "c13-default-graph", "default_graph([e0, e1, e2], %r, %r, %r, %r, %r)" % (un, us, up, rnd.choice(S) if tier != "quick" else "I", uy),
            ["pre: 0 <= e0 <= 2 and 0 <= e1 <= 2 and 0 <= e2 <= 2"], "default state on a 3-node graph with per-node volumes in their own units, every environment map (units combination %d)" % k,
            "e0: int, e1: int, e2: int", timeout=300)
    add("index_grid", "c13-index", "index_formula('grid', s, x, y, z)", ["pre: 0 <= s <= 3 and 0 <= x <= 2 and 0 <= y <= 1 and 0 <= z <= 1"],
        "state index = species*ncells + (z*w*h + y*w + x) for species given by index / label / object and the cell by linear index / tuple / object (3x2x2)", "s: int, x: int, y: int, z: int", timeout=240)
    add("index_graph", "c13-index", "index_formula('graph', s, x, 0, 0)", ["pre: 0 <= s <= 3 and 0 <= x <= 3"], "state index = species*ncells + node on a graph", "s: int, x: int", timeout=120)
    for kind in ("grid", "graph"):
        for uv in ("A", "B", "G"):
            add("touch_%s_%s" % (kind, uv), "c13-accessors", "accessors_touch_one_entry(%r, s, c, %r)" % (kind, uv), ["pre: 0 <= s <= 3 and 0 <= c <= 3"],
                "set_state / get_state / set_chemostat / get_chemostat read and write exactly entry species*ncells+cell, converting units (%s, value given in system %s)" % (kind, uv), "s: int, c: int", timeout=240)
    for kind in ("grid", "graph"):
        for (un, usy) in (("A", "G"), ("B", "A"), ("G", "J")):
            add("touch_units_%s_%s%s" % (kind, un, usy), "c13-accessors", "accessors_touch_one_entry(%r, s, c, 'B', %r, %r)" % (kind, un, usy), ["pre: 0 <= s <= 3 and 0 <= c <= 3"],
                "the same when the network's units system (%s: the default state is generated in it) differs from the system's (%s: bare numbers passed to set_state are in it) (%s)" % (un, usy, kind),
                "s: int, c: int", timeout=240, viol="a per-entry setter / getter does not convert between the system's units and the units the state is stored in")
    add("regen", "c13-regenerate", "regenerate_reflects_edit(s, [e0, e1])", ["pre: 0 <= s <= 3 and 0 <= e0 <= 2 and 0 <= e1 <= 2"], "regenerating the defaults after editing a species reflects the edit", "s: int, e0: int, e1: int", timeout=240)
    add("own_buffers", "c13-accessors-one-system", "writes_stay_in_one_system(kind, how, s, c)", ["pre: 0 <= kind <= 1 and 0 <= how <= 3 and 0 <= s <= 3 and 0 <= c <= 3"],
        "a per-entry write reaches exactly one entry of exactly ONE system: a second system built from the first one's state / chemostat arrays (constructor, setters, numpy arrays of the internal dtype, copy()) owns its data - "
        "set_state / set_chemostat on either leaves the other untouched (grid and graph, every species and cell)", "kind: int, how: int, s: int, c: int",
        viol="two systems share one state / chemostat buffer: a per-entry write to one of them changes the other")
    add("regen_inplace", "c13-regenerate-inplace", "regenerate_after_inplace_edit(s, [e0, e1, e2], how, g)", ["pre: 0 <= s <= 3 and 0 <= e0 <= 2 and 0 <= e1 <= 2 and 0 <= e2 <= 2 and 0 <= how <= 2 and 0 <= g <= 1"],
        "regenerating the defaults after the species' per-environment dictionaries were edited IN PLACE ('default' changed / added / removed, an environment's entry removed) gives what fresh species objects "
        "holding the same dictionaries give, and generating the defaults leaves those dictionaries untouched (all 27 environment maps of 3 cells, grid and graph)", "s: int, e0: int, e1: int, e2: int, how: int, g: int", timeout=300,
        viol="the defaults generated after an in-place edit of a species' density / chemostat dictionary still show the values looked up before the edit (the lookup wrote into the dictionary)")
    return "\n".join(L), conds


def run(rec):
    rec.assume("environment maps, species and cell indices are solver variables (realised when they enter numpy: every map / index of the stated range is enumerated by CrossHair); densities, volumes and values are concrete distinct numbers because the state lives in numpy (not exhaustive in the magnitudes)")
    rec.assume("unit-system combinations (network, species, space, node, system) from a catalogue / seed")
    for fn in ("generate_species_state/generate_system_state", "generate_species_chemostats/generate_system_chemostats", "RDSystem.get_state_index/set_state/get_state/set_chemostat/get_chemostat/set_default_state",
               "valproc.get_value_in_env", "RDGridSpace/RDGraphSpace.get_cell_vol_array/get_cell_env_array"):
        rec.encoded(fn)
    text, conds = gen(rec.tier, rec.seed)
    mod = pysym.write_module("hgen_C13", text)
    pysym.run_auto(rec, mod, conds, default_timeout=240)
