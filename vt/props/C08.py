"""C08 A trajectory is a pure function of script, engine kind and seed."""
import z3

from ..common import HarnessError
from .. import catalogue
from ..glue import record_setup
from ..oracle import SymTab
from ..enginelegs import make_script, symbolize, volumes_of, real_run, _collect_safety
from ..stochlegs import _prove
from ..cxx.engine import ast_info, program, initialize, algo, fetch_output, explore, is_sym, Vec, Obj, Ptr, class_of
from ..cxx.interp import Box


# ----------------------------------------------------------------------------- (a) loop drivers = Iterate^k, nothing else
def drivers(rec, item):
    option, sd = item
    desc = "loop drivers on %s %s" % (option, "grid" if sd[0] == "grid" else "graph")
    rec.structure(desc)
    system = catalogue.build("AB_rev", sd)
    script = make_script(system, option, 0.25, isp="none")
    kind, named, _ = record_setup(script, option)

    for driver, arg in (("engineexport_iterate", None), ("engineexport_iterate_n", z3.Int("n_iter")), ("engineexport_run", z3.Int("breathe_ms"))):
        calls = []

        def body(I, driver=driver, arg=arg, calls=calls):
            initialize(I, kind, dict(named))
            obj = algo(I)
            del calls[:]

            def iterate_stub(I_, this, args):
                b = I_.fresh("unfinished", "bool")
                calls.append((this, b, len(I_.events)))
                return b
            I.stubs["Iterate"] = iterate_stub
            gl = {n: I.global_box(n).get() for n in ("global_space_type", "global_algo_freed")}
            ptr = I.global_box("global_%s_algo" % kind).get().target
            if arg is not None:
                I.assume(z3.And(arg >= 0, arg <= 3))
            ret = I.call_fn(driver, [] if arg is None else [arg])
            cont = I.truth(ret)
            gl2 = {n: I.global_box(n).get() for n in ("global_space_type", "global_algo_freed")}
            return obj, list(calls), cont, gl == gl2 and I.global_box("global_%s_algo" % kind).get().target is ptr, [e for e in I.events if e[0] == "clock"]

        n = 0
        for pr in explore(program(), body, max_paths=200, unwind=5):
            if pr.I is None:
                rec.oblig("driver exploration", "inconclusive", pr.ended, structure=desc)
                continue
            I = pr.I
            _collect_safety(rec, I, desc)
            if pr.ended:
                if not pr.ended.startswith("UNWIND"):
                    rec.oblig("driver path ended: " + pr.ended, "inconclusive", "", 0, desc)
                continue
            feas, _ = I.check()
            if feas == "unsat":
                continue
            n += 1
            rec.paths += 1
            obj, cl, cont, globals_same, clocks = pr.value
            k = len(cl)
            fpw = [e for e in I.events if e[0] == "fpenv_write"]
            rec.oblig("%s leaves the floating-point environment (rounding / flush-to-zero modes) alone: the arithmetic of an iteration does not depend on which driver executes it" % driver,
                      "holds" if not fpw else "violated", [e[2] for e in fpw][:2], 0, desc)
            if fpw:
                rec.violation("driver-changes-fp-environment:%s" % driver, "%s changes the floating-point environment (%s at %s) around the iterations it runs: the same script gives different binary64 results under "
                              "run() and under iterate() / iterate_n() (%s)" % (driver, fpw[0][1], fpw[0][2], desc), {"structure": desc, "where": fpw[0][2]}, replayed=_replay_subnormal_slicing())
            ok_target = all(c[0] is obj for c in cl)
            rec.oblig("%s calls Iterate() on the current simulation only and leaves the engine globals alone" % driver, "holds" if (ok_target and globals_same) else "violated", k, 0, desc)
            if not (ok_target and globals_same):
                rec.violation("driver-touches-state:%s" % driver, "%s does more than iterate the current simulation (%s)" % (driver, desc), {"structure": desc})
            # every Iterate but the last returned 'unfinished'; the driver returns the last result
            claims = [cl[j][1] for j in range(k - 1)]
            if k:
                claims.append(cl[-1][1] == z3.BoolVal(bool(cont)))
            if driver == "engineexport_iterate":
                claims.append(z3.BoolVal(k == 1))
            elif driver == "engineexport_iterate_n":
                # k = min(n, index of the first 'finished') ; n = 0 makes no call
                claims.append(z3.And(arg >= k, z3.Or(arg == k, z3.Not(cl[-1][1])) if k else arg == 0))
            else:
                claims.append(z3.BoolVal(k >= 1))
                if len(clocks) == k + 1:
                    t0 = clocks[0][1]
                    for j in range(k - 1):
                        claims.append(clocks[j + 1][1] - t0 < arg)
                    claims.append(z3.Or(z3.Not(cl[-1][1]), clocks[k][1] - t0 >= arg))
                else:
                    claims.append(z3.BoolVal(False))
            _prove(rec, I, "%s = Iterate^k: stops at the first 'finished' (or when its budget is used up), returns the last result [k=%d]" % (driver, k), z3.And(*claims), desc,
                   lambda m: rec.violation("driver-not-iterate-k:%s" % driver, "%s is not a plain repetition of Iterate() (%s)" % (driver, desc), {"structure": desc, "model": str(m)[:300]}))
        rec.vacuity_witness(desc + " " + driver, n > 0, "%d paths" % n)


# ----------------------------------------------------------------------------- (b) set-up result depends on its arguments only
def _deep(v, I):
    if isinstance(v, Box):
        return _deep(v.get(), I)
    if isinstance(v, Vec):
        return ("vec", tuple(_deep(e, I) for e in v.elems))
    if isinstance(v, Obj):
        return ("obj", v.cls)
    if isinstance(v, Ptr):
        return ("ptr", v.target.cls if isinstance(v.target, Obj) else None)
    if isinstance(v, tuple):
        return tuple(_deep(e, I) for e in v if not isinstance(e, dict))
    if is_sym(v):
        return str(z3.simplify(v))
    return repr(v)


def fresh_fields(rec, item):
    option, sd, prev = item
    desc = "set-up of %s %s after %s" % (option, "grid" if sd[0] == "grid" else "graph", prev)
    rec.structure(desc)
    system = catalogue.build("AB_rev", sd)
    st = SymTab(concrete=volumes_of(system))
    script = make_script(system, option, 0.25, isp="none", seed=12345)
    kind, named, _ = record_setup(script, option)
    named_s = symbolize(kind, named, st, ("state", "k", "D", "dt"))
    snaps = []
    for history in (None, prev):
        def body(I, history=history):
            for c in st.positivity():
                I.assume(c)
            I.check_lib_pre = False
            if history is not None:
                popt, psd, n_it, fin = history
                psys = catalogue.build("ABC_bi", psd)
                pk, pn, _ = record_setup(make_script(psys, popt, 0.125, isp="none", seed=777, policy="on_iteration"), popt)
                initialize(I, pk, pn)
                for _ in range(n_it):
                    I.call_fn("engineexport_iterate", [])
                    if len(I.pc) > 40:
                        break
                if fin:
                    I.call_fn("engineexport_finalize", [])
            n_ev = len(I.events)
            initialize(I, kind, named_s)
            obj = algo(I, kind)
            fields = {k: _deep(b, I) for k, b in obj.fields.items()}
            seeds = [e for e in I.events[n_ev:] if e[0] == "rng_construct"]
            return fields, seeds, I.global_box("global_space_type").get(), I.global_box("global_algo_freed").get()
        got = None
        for pr in explore(program(), body, max_paths=6, unwind=4):
            if pr.I is not None and not pr.ended and got is None:
                got = pr.value
                _collect_safety(rec, pr.I, desc)
        snaps.append(got)
    a, b = snaps
    if a is None or b is None:
        rec.oblig("set-up state comparison", "inconclusive", "a run did not complete", 0, desc)
        return
    same = a[0] == b[0] and a[2] == b[2] and a[3] == b[3]
    diff = [k for k in a[0] if a[0][k] != b[0].get(k)]
    rec.oblig("every field of the freshly set-up simulation is the same function of the arguments whatever ran before", "holds" if same else "violated", diff, 0, desc)
    if not same:
        rec.violation("setup-depends-on-history", "after %s the fields %s of a new set-up differ from those of a fresh process (%s)" % (prev, diff[:4], desc), {"structure": desc, "fields": diff})
    okseed = len(a[1]) == 1 and not is_sym(a[1][0][1]) and int(a[1][0][1]) == 12345
    rec.oblig("the generator is constructed exactly once per set-up, from the script's seed", "holds" if okseed else "violated", str(a[1]), 0, desc)
    if not okseed:
        rec.violation("setup-seed", "the engine's generator is not seeded exactly once with the script's seed (%s)" % desc, {"structure": desc})
    unassigned = [k for k, v in a[0].items() if v == "None"]
    rec.sample({"structure": desc, "fields_compared": len(a[0]), "unassigned_after_setup": unassigned})


# ----------------------------------------------------------------------------- (c) seed independence of the deterministic engine
def no_stale_state(rec, item):
    """After any earlier simulation, a new set-up + iteration must not USE process-lifetime storage (globals, function-local
    statics such as cached distribution objects or scratch buffers) that was last written by the earlier simulation."""
    opt1, sd1, opt2, sd2, isp = item
    desc = "process-lifetime storage: %s/%s (%s) after %s/%s" % (opt2, sd2[0], isp, opt1, sd1[0])
    rec.structure(desc)
    s1 = catalogue.build("ABC_bi", sd1)
    s1.state = [150.0 + 10 * k for k in range(3 * s1.space.size())]
    s2 = catalogue.build("AB_rev", sd2)
    s2.state = [120.0 + 7 * k for k in range(2 * s2.space.size())]
    k1, n1, _ = record_setup(make_script(s1, opt1, 0.125, isp=isp, seed=11, policy="on_iteration"), opt1)
    k2, n2, _ = record_setup(make_script(s2, opt2, 0.125, isp=isp, seed=22, policy="on_iteration"), opt2)
    stale = []
    npaths = 0

    def body(I):
        I.check_lib_pre = False
        initialize(I, k1, n1)
        I.call_fn("engineexport_iterate", [])
        I.call_fn("engineexport_finalize", [])
        mark = len(I.stale_reads)
        try:
            initialize(I, k2, n2)
            I.call_fn("engineexport_iterate", [])
            I.call_fn("engineexport_finalize", [])
        finally:
            stale.extend(I.stale_reads[mark:])
        return True
    for pr in explore(program(), body, max_paths=12, budget_s=90, unwind=3):
        if pr.I is not None:
            npaths += 1
            _collect_safety(rec, pr.I, desc)
    uniq = sorted(set(stale))
    rp = _replay_history_dependence() if uniq else None
    # The life-cycle bookkeeping of the native library (is a simulation live, which object, of which space type) is process-lifetime
    # storage by design: a set-up that consults it in order to RELEASE the previous simulation (a leak fix) reads a value an earlier
    # simulation wrote, legitimately. Such a read is accepted when the real build shows no dependence on history (same script and seed
    # after five different histories, abandoned set-ups included); the field-by-field comparison of set-ups after different histories
    # (fresh_fields) is the semantic leg next to it. Any other stale read, or one with an observable effect, is reported as before.
    bookkeeping = {"global_algo_freed", "global_grid_algo", "global_graph_algo", "global_space_type"}
    harmless = bool(uniq) and all(u[0] in bookkeeping for u in uniq) and rp is not None and not rp[0]
    rec.oblig("a new set-up and its iterations never use a global or function-local static last written by an earlier simulation"
              + (" (only the life-cycle bookkeeping is consulted; no dependence on history on the real build)" if harmless else ""),
              "holds" if (not uniq or harmless) else "violated", uniq[:5], 0, desc)
    rec.vacuity_witness(desc, npaths > 0, "%d paths" % npaths)
    if uniq and not harmless:
        rec.violation("stale-process-state:%s" % uniq[0][0], "engine code uses %s '%s' (%s) whose value was left behind by a previous simulation: results depend on what ran earlier in the process; real build: %s"
                      % (uniq[0][2], uniq[0][0], uniq[0][1], rp[1]), {"structure": desc, "stale": [list(u) for u in uniq]}, replayed=rp[0])


_hist = {}


_subn = {}


def _replay_subnormal_slicing():
    """real build, deterministic engine: an irreversible decay whose tail runs through the subnormal range (and a diffusion front from a
    point source), driven by iterate() alone, by run(0) alone and by a mixed schedule: bit-identical?"""
    if "r" in _subn:
        return _subn["r"]
    try:
        from strengths import RDNetwork, Species, Reaction, RDSystem, RDGridSpace, RDScript
        from ..glue import real_engine
        net = RDNetwork(species=[Species("A", D=0.25), Species("B", D=0)], reactions=[Reaction("A -> B", kf=1.0)])
        sysm = RDSystem(net, RDGridSpace(w=3, h=1, d=1, cell_vol=1.0), state=[3e-306, 0, 0, 0, 0, 0])
        outs = []
        for mode in range(3):
            e = real_engine("euler")
            e.setup(RDScript(sysm, [0.0, 8.0, 16.0, 24.0], time_step=0.5, sampling_policy="on_iteration", init_state_processing="none"))
            k = 0
            while True:
                k += 1
                more = e.iterate() if mode == 0 or (mode == 2 and k % 3 == 0) else (e.run(0) if mode == 1 or k % 3 == 1 else e.iterate_n(2))
                if not more or k > 10000:
                    break
            o = e.get_output()
            e.finalize()
            outs.append(repr([float(v).hex() for v in o.data.value]))
        _subn["r"] = len(set(outs)) > 1
    except Exception:
        _subn["r"] = False
    return _subn["r"]


def _replay_history_dependence():
    """real build, child processes: the same script/seed run (a) first in a fresh process, (b) after other simulations, (c) each run preceded
    by a set-up of the same space type (same or another engine kind) that was abandoned without finalize: bit-identical?"""
    if "r" in _hist:
        return _hist["r"]
    import os
    import subprocess
    import sys
    from ..common import scratch, SRC, VERIF
    code = r'''
import sys
sys.path.insert(0, %r); sys.path.insert(0, %r)
from strengths import *
from vt.glue import real_engine
ABANDON = None
def run(opt, nsp, ncell, seed, base, graph=False, abandoned=False):
    if ABANDON and not abandoned:
        # history 3 / 4: a set-up of the same space type (same / another engine kind) that was started and never finalized
        kinds = ("euler", "tauleap", "gillespie")
        run(opt if ABANDON == "same" else kinds[(kinds.index(opt) + 1) %% 3], nsp, ncell, seed + 1, base + 40.0, graph, abandoned=True)
    net = RDNetwork(species=[Species(chr(65 + k), D=1) for k in range(nsp)], reactions=[Reaction("A -> B", kf=1, kr=1)] * (1 if nsp > 1 else 0) + [Reaction("B -> A", kf=0.5)] * (nsp - 1))
    from strengths.rdgraphspace import RDGraphSpaceNode as N_, RDGraphSpaceEdge as E_
    space = RDGraphSpace(nodes=[N_(1.0, 0) for _ in range(ncell)], edges=[E_(k, k + 1) for k in range(ncell - 1)]) if graph else RDGridSpace(w=ncell, h=1, d=1, cell_vol=1)
    s = RDSystem(net, space, state=[base + 13 * k for k in range(nsp * ncell)])
    e = real_engine(opt)
    e.setup(RDScript(s, [0, 0.01], rng_seed=seed, time_step=0.005))
    if abandoned:
        e.iterate()
        return None
    while e.iterate():
        pass
    o = e.get_output(); e.finalize()
    return [float(v) for v in o.data.value] + [float(v) for v in o.t.value]
hist = sys.argv[1]
if hist == "1":
    run("tauleap", 3, 3, 5, 140.0); run("euler", 2, 2, 1, 10.0)
if hist == "2":
    run("gillespie", 2, 5, 9, 300.0); run("euler", 3, 1, 1, 10.0); run("tauleap", 2, 3, 4, 500.0)
if hist in ("3", "4"):
    ABANDON = "same" if hist == "3" else "other"
out = [run("euler", 2, 3, 78, 20.25, graph=True)]       # measured FIRST: whatever the history left behind acts on it (deterministic engine, graph space)
for opt in ("tauleap", "gillespie", "euler"):
    out.append(run(opt, 3, 2, 77, 120.0))
    out.append(run(opt, 2, 3, 78, 20.25, graph=True))        # graph space, non-integer amounts, default initial-state processing
print(repr(out))
''' % (SRC, VERIF)
    path = os.path.join(scratch(), "history_dep.py")
    open(path, "w").write(code)
    outs = []
    crashed = False
    for h in ("0", "1", "2", "3", "4"):
        try:
            r = subprocess.run([sys.executable, path, h], capture_output=True, text=True, timeout=120, env=dict(os.environ, VERIF_SHARED_SCRATCH=scratch()))
            if r.returncode != 0:
                crashed = True
            outs.append(r.stdout.strip().splitlines()[-1] if r.stdout.strip() else "crash:%d" % r.returncode)
        except subprocess.TimeoutExpired:
            outs.append("timeout")
    ok = crashed or len(set(outs)) > 1
    _hist["r"] = (ok, "same script and seed after different histories: %s" % ("results differ or the process crashed" if ok else "identical results"))
    return _hist["r"]


def euler_no_draws(rec, item):
    sd = item
    desc = "euler draws on %s" % ("grid" if sd[0] == "grid" else "graph")
    rec.structure(desc)
    system = catalogue.build("ABC_bi", sd)
    st = SymTab(concrete=volumes_of(system))
    for isp in ("auto", "none"):
        script = make_script(system, "euler", 0.25, isp=isp)
        kind, named, _ = record_setup(script, "euler")
        named_s = symbolize(kind, named, st, ("state",))
        named_s["seed"] = z3.Int("seed")

        def body(I):
            for c in st.positivity():
                I.assume(c)
            initialize(I, kind, named_s)
            for _ in range(2):
                I.call_fn("engineexport_iterate", [])
            return fetch_output(I, len(system.network.species), system.space.size())
        for pr in explore(program(), body, max_paths=8):
            if pr.I is None or pr.ended:
                continue
            I = pr.I
            draws = [e for e in I.events if e[0] in ("uniform", "poisson", "normal")]
            n, data, ts = pr.value
            dep = any(is_sym(x) and "seed" in str(x) for x in list(data) + list(ts))
            rec.oblig("the deterministic engine (init mode %s) makes no random draw and its output does not mention the seed" % isp, "holds" if (not draws and not dep) else "violated", len(draws), 0, desc)
            if draws or dep:
                rec.violation("euler-uses-rng", "the deterministic engine's result depends on the random generator / seed (%s)" % desc, {"structure": desc})


# ----------------------------------------------------------------------------- real build: repeat / slicing sanity (translator-validation style)
def real_repeats(rec):
    import ctypes
    from ..glue import real_engine
    for option, sd in (("gillespie", ("grid", 2, 1, 1, 1)), ("tauleap", ("graph", "pair")), ("euler", ("grid", 2, 1, 1, 0))):
        system = catalogue.build("AB_rev", sd)
        system.state = [30.0] * (2 * system.space.size())
        script = make_script(system, option, 0.125, policy="on_iteration", t_max=1.0, isp="auto", seed=2 ** 32 - 5)
        base = real_run(script, option, None)
        outs = []
        def loop(f):
            def calls(e):
                k = 0
                while f(e) and k < 10 ** 6:
                    k += 1
            return calls
        mixed_state = {"k": 0}

        def mixed(e):
            mixed_state["k"] += 1
            return (e.iterate, lambda: e.iterate_n(2), lambda: e.run(0))[mixed_state["k"] % 3]()
        for calls in (loop(lambda e: e.iterate()), loop(lambda e: e.iterate_n(3)), loop(lambda e: e.run(0)), loop(mixed)):
            outs.append(real_run(script, option, calls=calls))
        ok = all(o == base for o in outs)
        rec.oblig("real build: same script and seed give a bit-identical trajectory under iterate / iterate_n / run slicing (%s)" % option, "holds" if ok else "violated", "", 0, "real build")
        if not ok:
            rec.violation("real-slicing-differs:%s" % option, "the real build gives different trajectories for different slicings of the same script and seed (%s)" % option, {"option": option})
        rec.extra["traces_validated_against_impl"] = rec.extra.get("traces_validated_against_impl", 0) + 4


def _work(rec, item):
    if item[0] == "stale":
        no_stale_state(rec, item[1:])
    elif item[0] == "drivers":
        drivers(rec, item[1:])
    elif item[0] == "fresh":
        fresh_fields(rec, item[1:])
    else:
        euler_no_draws(rec, item[1])


def run(rec):
    program()
    rec.extra["ast"] = ast_info()
    rec.assume("wall-clock readings are arbitrary non-decreasing integers (stub of std::chrono::system_clock::now); Iterate() is replaced by a stub returning an arbitrary boolean when the loop drivers are examined, so the verdict covers every engine and every slicing")
    rec.assume("bit-identity on real hardware and determinism of libstdc++'s generators are trusted; the real build is exercised concretely for repeat/slicing identity")
    rec.assume("iterate_n(n) and run(ms) examined for 0 <= n, ms <= 3 with at most 5 loop iterations (unwinding bound)")
    for fn in ("engineexport_run", "engineexport_iterate_n", "engineexport_iterate", "engineexport_initialize_grid/graph", "SimulationAlgorithm*Base::Init",
               "Euler3D/EulerGraph::Iterate", "RDScript.rng_seed / copy, LibRDEngine.setup (py-sym leg)"):
        rec.encoded(fn)
    items = []
    for option in ("euler", "tauleap", "gillespie"):
        for sd in (("grid", 2, 1, 1, 1), ("graph", "pair")):
            items.append(("drivers", option, sd))
            items.append(("fresh", option, sd, ("gillespie", ("graph", "triangle"), 2, True)))
            items.append(("fresh", option, sd, ("euler", ("grid", 2, 2, 1, 4), 1, False)))
    items += [("nodraw", ("grid", 2, 1, 1, 1)), ("nodraw", ("graph", "triangle"))]
    for (o1, sd1, o2, sd2) in ((("tauleap", ("grid", 2, 1, 1, 0), "gillespie", ("grid", 2, 1, 1, 1))), ("gillespie", ("graph", "pair"), "tauleap", ("graph", "pair")),
                               ("euler", ("grid", 2, 1, 1, 0), "euler", ("grid", 2, 1, 1, 1)), ("euler", ("graph", "pair"), "euler", ("graph", "triangle")),
                               ("tauleap", ("grid", 2, 1, 1, 0), "euler", ("graph", "pair")), ("euler", ("grid", 1, 1, 1, 0), "tauleap", ("grid", 2, 2, 1, 4))):
        for isp in ("auto", "none"):
            items.append(("stale", o1, sd1, o2, sd2, isp))
    rec.parallel(_work, items)
    real_repeats(rec)
    from . import C08_py
    C08_py.run(rec)
