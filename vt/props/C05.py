"""C05 Arithmetic on quantities is arithmetic on their SI values, or an error."""
import itertools
import random

from .. import pysym

PRE2 = "pre: 1e-3 < a < 1e6 and 1e-3 < b < 1e6"
PRE2S = "pre: -1e6 < a < 1e6 and -1e6 < b < 1e6"
DIMS = [(1, -1, 0), (0, 0, 1), (-3, 0, 1), (2, -1, 0), (3, 0, 0), (0, -1, 0), (-3, -1, 1), (1, 1, 1), (0, 0, 0)]


def gen(tier, seed):
    rnd = random.Random(seed)
    lines = ["from harness.c05lib import *", ""]
    conds = []
    syspairs = [("A", "B"), ("C", "D"), ("E", "F"), ("G", "H"), ("I", "J"), ("K", "A"), ("B", "B")]
    if tier != "quick":
        syspairs += [(rnd.choice("ABCDEFGHIJK"), rnd.choice("ABCDEFGHIJK")) for _ in range(8)]
    k = 0
    ops = ["add", "sub", "mul", "div", "lt", "le", "gt", "ge", "eq"]
    for op in ops:
        for pairing in ("vv", "vn", "nv"):
            pairs = syspairs if tier != "quick" else [syspairs[(k + j) % len(syspairs)] for j in range(2)]
            for (sa, sb) in pairs:
                da = DIMS[k % len(DIMS)]
                db = da if op in ("add", "sub", "lt", "le", "gt", "ge", "eq") else DIMS[(k * 3 + 1) % len(DIMS)]
                k += 1
                fn = "h_%s_%s_%s%s_%d" % (op, pairing, sa, sb, k)
                pre = PRE2S if op in ("add", "sub", "mul", "lt", "le", "gt", "ge", "eq") else "pre: -1e6 < a < 1e6 and 1e-3 < b < 1e6" if pairing != "nv" or op != "div" else PRE2
                if op == "div":
                    pre = "pre: -1e6 < a < 1e6 and 1e-3 < b < 1e6"
                lines += ["def %s(a: float, b: float) -> bool:" % fn, '    """', "    " + pre, "    post: _", '    """',
                          "    return binop(%r, %r, a, b, %r, %r, %r, %r)" % (op, pairing, sa, sb, da, db), ""]
                conds.append({"fn": fn, "what": "%s [%s] SI value and dimension = arithmetic on SI values (systems %s/%s, dims %s/%s)" % (op, pairing, sa, sb, da, db),
                              "sig": "c05-%s-%s" % (op, pairing), "structure": "%s/%s" % (sa, sb)})
    for op in ("neg", "abs", "pos"):
        for us in ("B", "D") if tier == "quick" else "ABCDEFGHIJK":
            k += 1
            d = DIMS[k % len(DIMS)]
            fn = "h_%s_%s_%d" % (op, us, k)
            lines += ["def %s(a: float) -> bool:" % fn, '    """', "    pre: -1e6 < a < 1e6", "    post: _", '    """', "    return unop(%r, a, %r, %r)" % (op, us, d), ""]
            conds.append({"fn": fn, "what": "unary %s (system %s, dim %s)" % (op, us, d), "sig": "c05-%s" % op, "structure": us})
    for n in (2, 3, -1, -2, 0, 1):
        us = "BCDEF"[abs(n) % 5]
        d = DIMS[(n + 5) % len(DIMS)]
        fn = "h_pow_%s_%s" % (str(n).replace("-", "m"), us)
        lines += ["def %s(a: float) -> bool:" % fn, '    """', "    pre: 1e-3 < a < 1e3", "    post: _", '    """', "    return powint(a, %d, %r, %r)" % (n, us, d), ""]
        conds.append({"fn": fn, "what": "value ** %d (system %s, dim %s)" % (n, us, d), "sig": "c05-pow", "structure": us, "timeout": 90})
    # error clauses: symbolic dimension vectors
    for op in ("add", "sub", "mod", "lt", "le", "gt", "ge"):
        fn = "h_mismatch_%s" % op
        lines += ["def %s(a: float, b: float, s1: int, t1: int, q1: int, s2: int, t2: int, q2: int) -> bool:" % fn, '    """',
                  "    pre: 1e-3 < a < 1e3 and 1e-3 < b < 1e3", "    pre: -3 <= s1 <= 3 and -3 <= t1 <= 3 and -3 <= q1 <= 3 and -3 <= s2 <= 3 and -3 <= t2 <= 3 and -3 <= q2 <= 3",
                  "    pre: (s1, t1, q1) != (s2, t2, q2)", "    post: _", '    """',
                  "    return mismatch_raises(%r, a, b, 'A', 'B', (s1, t1, q1), (s2, t2, q2))" % op, ""]
        conds.append({"fn": fn, "what": "%s of quantities with different dimension vectors raises (dimension vectors symbolic in [-3,3]^3)" % op, "sig": "c05-mismatch-%s" % op,
                      "structure": "A/B", "timeout": 120})
    fracs = [(1, 2), (1, 3), (2, 3), (-1, 2), (3, 2), (2, 1)] if tier == "quick" else [(n, d) for n in range(-3, 4) for d in (1, 2, 3)]
    for (num, den) in fracs:
        fn = "h_pow_fraction_%s_%d" % (str(num).replace("-", "m"), den)
        lines += ["def %s(a: float, s: int, t: int, q: int) -> bool:" % fn, '    """',
                  "    pre: 1e-3 < a < 1e3 and -3 <= s <= 3 and -3 <= t <= 3 and -3 <= q <= 3", "    post: _", '    """',
                  "    return pow_fraction(a, %d, %d, 'B', (s, t, q))" % (num, den), ""]
        conds.append({"fn": fn, "what": "value ** (%d/%d) raises iff a resulting exponent is fractional (dimension vector symbolic in [-3,3]^3)" % (num, den), "sig": "c05-pow-fraction",
                      "structure": "B", "timeout": 120})
    return "\n".join(lines), conds


def run(rec):
    rec.assume("Python floats are modelled as exact reals (CrossHair real-float driver vt/chreal.py); conversion constants are the module's own decimal floats, so SI agreement is asserted to 1e-9 relative; counterexamples are replayed in plain CPython")
    rec.assume("magnitudes symbolic in (-1e6, 1e6) (divisors and power bases in (1e-3, 1e6)); unit systems from a catalogue covering every base symbol; dimension vectors from a catalogue, symbolic in [-3,3]^3 for the error clauses")
    rec.assume("UnitArray pairings: the payload is numpy, which realises symbols; they are covered element-wise with solver-chosen magnitudes per path (not exhaustive in the magnitudes) in the array conditions")
    for fn in ("UnitValue.__add__/__sub__/__mul__/__truediv__/__mod__/__pow__/__neg__/__abs__/__lt__/__le__/__gt__/__ge__/__eq__", "UnitValue._sum/_product/_modulo", "Units.multiply/invert/raiseto",
               "convert_unitvalue/convert_value/compute_conversion_factor"):
        rec.encoded(fn)
    text, conds = gen(rec.tier, rec.seed)
    mod = pysym.write_module("hgen_C05", text)
    pysym.run_conditions(rec, mod, conds, default_timeout=60 if rec.tier == "quick" else 180)
