"""C05 Arithmetic on quantities is arithmetic on their SI values, or an error."""
import itertools
import random

from .. import pysym

PRE2 = "pre: 1e-3 < a < 1e6 and 1e-3 < b < 1e6"
PRE2S = "pre: -1e6 < a < 1e6 and -1e6 < b < 1e6"
DIMS = [(1, -1, 0), (0, 0, 1), (-3, 0, 1), (2, -1, 0), (3, 0, 0), (0, -1, 0), (-3, -1, 1), (1, 1, 1), (0, 0, 0)]


def gen(tier, seed):
    rnd = random.Random(seed)
    lines = ["from harness.c05lib import *", ""]
    conds = []
    syspairs = [("A", "B"), ("C", "D"), ("E", "F"), ("G", "H"), ("I", "J"), ("K", "A"), ("B", "B")]
    if tier != "quick":
        syspairs += [(rnd.choice("ABCDEFGHIJK"), rnd.choice("ABCDEFGHIJK")) for _ in range(8)]
    k = 0
    ops = ["add", "sub", "mul", "div", "lt", "le", "gt", "ge", "eq"]
    for op in ops:
        for pairing in ("vv", "vn", "nv"):
            pairs = syspairs if tier != "quick" else [syspairs[(k + j) % len(syspairs)] for j in range(2)]
            for (sa, sb) in pairs:
                da = DIMS[k % len(DIMS)]
                db = da if op in ("add", "sub", "lt", "le", "gt", "ge", "eq") else DIMS[(k * 3 + 1) % len(DIMS)]
                k += 1
                fn = "h_%s_%s_%s%s_%d" % (op, pairing, sa, sb, k)
                pre = PRE2S if op in ("add", "sub", "mul", "lt", "le", "gt", "ge", "eq") else "pre: -1e6 < a < 1e6 and 1e-3 < b < 1e6" if pairing != "nv" or op != "div" else PRE2
                if op == "div":
                    pre = "pre: -1e6 < a < 1e6 and 1e-3 < b < 1e6"
                lines += ["def %s(a: float, b: float) -> bool:" % fn, '    """', "    " + pre, "    post: _", '    """',
                          "    return binop(%r, %r, a, b, %r, %r, %r, %r)" % (op, pairing, sa, sb, da, db), ""]
                conds.append({"fn": fn, "what": "%s [%s] SI value and dimension = arithmetic on SI values (systems %s/%s, dims %s/%s)" % (op, pairing, sa, sb, da, db),
                              "sig": "c05-%s-%s" % (op, pairing), "structure": "%s/%s" % (sa, sb)})
    for op in ("neg", "abs", "pos"):
        for us in ("B", "D") if tier == "quick" else "ABCDEFGHIJK":
            k += 1
            d = DIMS[k % len(DIMS)]
            fn = "h_%s_%s_%d" % (op, us, k)
            lines += ["def %s(a: float) -> bool:" % fn, '    """', "    pre: -1e6 < a < 1e6", "    post: _", '    """', "    return unop(%r, a, %r, %r)" % (op, us, d), ""]
            conds.append({"fn": fn, "what": "unary %s (system %s, dim %s)" % (op, us, d), "sig": "c05-%s" % op, "structure": us})
    for n in (2, 3, -1, -2, 0, 1):
        us = "BCDEF"[abs(n) % 5]
        d = DIMS[(n + 5) % len(DIMS)]
        fn = "h_pow_%s_%s" % (str(n).replace("-", "m"), us)
        lines += ["def %s(a: float) -> bool:" % fn, '    """', "    pre: 1e-3 < a < 1e3", "    post: _", '    """', "    return powint(a, %d, %r, %r)" % (n, us, d), ""]
        conds.append({"fn": fn, "what": "value ** %d (system %s, dim %s)" % (n, us, d), "sig": "c05-pow", "structure": us, "timeout": 90})
    lines += ["def h_eq_lattice(ia: int, ib: int, k: int) -> bool:", '    """', "    pre: 0 <= ia <= 15 and 0 <= ib <= 15 and 0 <= k <= %d" % (11 if tier == "quick" else 35), "    post: _", '    """',
              "    return eq_lattice(ia, ib, k)", ""]
    conds.append({"fn": "h_eq_lattice", "what": "== and != agree with the comparison of SI values on a 16-point magnitude lattice from 1e-30 to 1e30 incl. close pairs (no absolute tolerance), 6 storage-system pairs, both operand orders",
                  "sig": "c05-eq-lattice", "structure": "lattice", "enumerate": True, "viol": "== / != between quantities disagrees with the comparison of their SI values"})
    lines += ["def h_order_lattice(ia: int, ib: int, k: int) -> bool:", '    """', "    pre: 0 <= ia <= 15 and 0 <= ib <= 15 and 0 <= k <= 23", "    post: _", '    """',
              "    return order_lattice(ia, ib, k)", ""]
    conds.append({"fn": "h_order_lattice", "what": "< <= > >= between quantities of the same units, and between a quantity and a plain number in either operand order, are exactly the comparisons of the magnitudes on the 16-point lattice - INCLUDING equal operands (the symbolic comparison legs do not judge ties)",
                  "sig": "c05-order-lattice", "structure": "lattice", "enumerate": True, "viol": "an ordering comparison involving a quantity disagrees with the comparison of the magnitudes (e.g. at equality)"})
    lines += ["def h_op_sequence(k: int, r: int) -> bool:", '    """', "    pre: 0 <= k <= 29 and 0 <= r <= 7", "    post: _", '    """', "    return op_sequence(k, r)", ""]
    conds.append({"fn": "h_op_sequence", "what": "sequences of + - * / % and comparisons on the same two operands stored in different unit systems, evaluated one after the other in ONE process (8 rotations of the order x 6 system pairs x 5 dimensions): every result is the SI arithmetic, independent of what was computed before",
                  "sig": "c05-op-sequence", "structure": "sequence", "enumerate": True, "viol": "the result of an operation on quantities depends on which operations were evaluated earlier in the process"})
    # error clauses: symbolic dimension vectors
    for op in ("add", "sub", "mod", "lt", "le", "gt", "ge"):
        fn = "h_mismatch_%s" % op
        lines += ["def %s(a: float, b: float, s1: int, t1: int, q1: int, s2: int, t2: int, q2: int) -> bool:" % fn, '    """',
                  "    pre: 1e-3 < a < 1e3 and 1e-3 < b < 1e3", "    pre: -3 <= s1 <= 3 and -3 <= t1 <= 3 and -3 <= q1 <= 3 and -3 <= s2 <= 3 and -3 <= t2 <= 3 and -3 <= q2 <= 3",
                  "    pre: (s1, t1, q1) != (s2, t2, q2)", "    post: _", '    """',
                  "    return mismatch_raises(%r, a, b, 'A', 'B', (s1, t1, q1), (s2, t2, q2))" % op, ""]
        conds.append({"fn": fn, "what": "%s of quantities with different dimension vectors raises (dimension vectors symbolic in [-3,3]^3)" % op, "sig": "c05-mismatch-%s" % op,
                      "structure": "A/B", "timeout": 120})
    # modulo (scalar, symbolic magnitudes of either sign) and array pairings (payload in numpy: values from a lattice, indices symbolic)
    for pairing in ("vv", "vn", "nv"):
        for (sa, sb) in (syspairs[:2] if tier == "quick" else syspairs):
            k += 1
            fn = "h_mod_%s_%s%s_%d" % (pairing, sa, sb, k)
            lines += ["def %s(ia: int, ib: int) -> bool:" % fn, '    """', "    pre: 0 <= ia <= 4 and 0 <= ib <= 4", "    post: _", '    """',
                      "    return mod_lattice(%r, ia, ib, %r, %r, %r)" % (pairing, sa, sb, DIMS[k % len(DIMS)]), ""]
            conds.append({"fn": fn, "what": "%% [%s]: result has the divisor's sign, |r| < |m| and a - r is a multiple of m, in SI, for every pair of a 5-point lattice with both signs (systems %s/%s)" % (pairing, sa, sb),
                          "sig": "c05-mod-%s" % pairing, "structure": "%s/%s" % (sa, sb), "timeout": 120})
    for op in ("add", "sub", "mul", "div", "mod"):
        for pairing in ("av", "va", "aa", "an", "na"):
            k += 1
            sa, sb = syspairs[k % len(syspairs)]
            fn = "h_arr_%s_%s_%d" % (op, pairing, k)
            lines += ["def %s(ia: int, ib: int, ic: int) -> bool:" % fn, '    """', "    pre: 0 <= ia <= 4 and 0 <= ib <= 2 and 0 <= ic <= 4", "    post: _", '    """',
                      "    return array_op(%r, %r, ia, ib, ic, %r, %r, %r)" % (op, pairing, sa, sb, DIMS[k % len(DIMS)]), ""]
            conds.append({"fn": fn, "what": "UnitArray %s [%s] agrees element-wise with the scalar operator for every value combination of a 5-point lattice incl. negatives and zero (systems %s/%s)" % (op, pairing, sa, sb),
                          "sig": "c05-array-%s-%s" % (op, pairing), "structure": "%s/%s" % (sa, sb), "timeout": 300})
    lines += ["def h_arr_unary(ia: int, ib: int) -> bool:", '    """', "    pre: 0 <= ia <= 4 and 0 <= ib <= 4", "    post: _", '    """', "    return array_unary(ia, ib, 'B', (1, -1, 0))", ""]
    conds.append({"fn": "h_arr_unary", "what": "UnitArray unary -, +, abs element-wise", "sig": "c05-array-unary", "structure": "B"})
    for op in ("add", "sub", "mul", "div", "mod"):
        fn = "h_arr_len_%s" % op
        lines += ["def %s(n1: int, n2: int) -> bool:" % fn, '    """', "    pre: 0 <= n1 <= 3 and 0 <= n2 <= 3", "    post: _", '    """', "    return array_length_mismatch(%r, n1, n2)" % op, ""]
        conds.append({"fn": fn, "what": "UnitArray %s UnitArray raises iff the lengths (0..3) differ" % op, "sig": "c05-array-length", "structure": "A/B"})
    for op in ("add", "sub", "mod"):
        fn = "h_arr_dim_%s" % op
        lines += ["def %s(s: int, t: int, q: int) -> bool:" % fn, '    """', "    pre: -2 <= s <= 2 and -2 <= t <= 2 and -2 <= q <= 2 and (s, t, q) != (1, 0, 0)", "    post: _", '    """',
                  "    return array_dim_mismatch(%r, s, t, q)" % op, ""]
        conds.append({"fn": fn, "what": "UnitArray %s with a different dimension vector raises (array/array, array/value, value/array)" % op, "sig": "c05-array-dim", "structure": "A/B", "timeout": 180})
    fracs = [(1, 2), (1, 3), (2, 3), (-1, 2), (3, 2), (2, 1)] if tier == "quick" else [(n, d) for n in range(-3, 4) for d in (1, 2, 3)]
    for (num, den) in fracs:
        fn = "h_pow_fraction_%s_%d" % (str(num).replace("-", "m"), den)
        lines += ["def %s(a: float, s: int, t: int, q: int) -> bool:" % fn, '    """',
                  "    pre: 1e-3 < a < 1e3 and -3 <= s <= 3 and -3 <= t <= 3 and -3 <= q <= 3", "    post: _", '    """',
                  "    return pow_fraction(a, %d, %d, 'B', (s, t, q))" % (num, den), ""]
        conds.append({"fn": fn, "what": "value ** (%d/%d) raises iff a resulting exponent is fractional (dimension vector symbolic in [-3,3]^3)" % (num, den), "sig": "c05-pow-fraction",
                      "structure": "B", "timeout": 120})
    return "\n".join(lines), conds


def run(rec):
    rec.assume("Python floats are modelled as exact reals (CrossHair real-float driver vt/chreal.py); conversion constants are the module's own decimal floats, so SI agreement is asserted to 1e-9 relative; counterexamples are replayed in plain CPython")
    rec.assume("magnitudes symbolic in (-1e6, 1e6) (divisors and power bases in (1e-3, 1e6)); unit systems from a catalogue covering every base symbol; dimension vectors from a catalogue, symbolic in [-3,3]^3 for the error clauses")
    rec.assume("UnitArray pairings: the payload is numpy, which realises symbols; array operators are compared element-wise with the scalar operators (whose SI law is proved for symbolic magnitudes) on EVERY value combination of a 5-point lattice with negative, zero and fractional values (exhaustive on the lattice, not beyond)")
    for fn in ("UnitValue.__add__/__sub__/__mul__/__truediv__/__mod__/__pow__/__neg__/__abs__/__lt__/__le__/__gt__/__ge__/__eq__", "UnitValue._sum/_product/_modulo", "Units.multiply/invert/raiseto",
               "convert_unitvalue/convert_value/compute_conversion_factor"):
        rec.encoded(fn)
    text, conds = gen(rec.tier, rec.seed)
    mod = pysym.write_module("hgen_C05", text)
    pysym.run_auto(rec, mod, [c for c in conds if c.get("enumerate")])     # finite lattices whose values end up inside numpy: plain CPython, exhaustive
    pysym.run_conditions(rec, mod, [c for c in conds if not c.get("enumerate")], default_timeout=60 if rec.tier == "quick" else 180)
