"""C04 Physical results do not depend on the units used to state or report them."""
import random

from .. import pysym


def gen(tier, seed):
    rnd = random.Random(seed)
    L = ["from harness.c04lib import *", ""]
    conds = []

    def add(fn, sig, body, pre, what, args, timeout=None, viol=None):
        fn = "h_" + fn
        L.extend(["def %s(%s) -> bool:" % (fn, args), '    """'] + ["    " + p for p in pre] + ["    post: _", '    """', "    return " + body, ""])
        c = {"fn": fn, "what": what, "sig": sig, "structure": "units"}
        if timeout:
            c["timeout"] = timeout
        if viol:
            c["viol"] = viol
        conds.append(c)
    S = "ABCDEFGHIJK"
    pairs = [("A", "B"), ("C", "D"), ("G", "J")] if tier == "quick" else [("A", "B"), ("C", "D"), ("E", "F"), ("G", "H"), ("I", "J"), ("K", "C")] + [(rnd.choice(S), rnd.choice(S)) for _ in range(6)]
    kinds = ["density", "density_env", "D", "kf0", "kf1", "kf2", "kf3", "kf4", "kr2", "cell_vol", "node_volume", "edge_surface", "edge_distance"]
    k = 0
    for kind in kinds:
        for (u1, u2) in (pairs if tier != "quick" else [pairs[k % len(pairs)]]):
            k += 1
            add("bare_%s_%s%s" % (kind, u1, u2), "c04-bare:%s" % kind, "bare_number_scaling(%r, a, %r, %r)" % (kind, u1, u2), ["pre: 1e-6 < a < 1e6"],
                "field %s: bare a under %s and bare a*f under %s store the same SI value = a x SI factor of (%s, dim) for EVERY magnitude" % (kind, u1, u2, u1), "a: float", timeout=120)
    for kind in ("time_step", "t_max", "sampling_interval"):
        u1, u2 = pairs[k % len(pairs)]
        k += 1
        add("script_%s" % kind, "c04-bare:%s" % kind, "script_bare_scaling(%r, a, %r, %r)" % (kind, u1, u2), ["pre: 1e-6 < a < 1e6"], "script field %s: bare number takes the script's units system (symbolic magnitude)" % kind, "a: float", timeout=120)
    add("script_t_sample", "c04-bare:t_sample", "script_bare_scaling('t_sample', a, 'B', 'G')", ["pre: 1e-3 < a < 1e3"], "t_sample entries take the script's units (magnitude realised at the numpy boundary)", "a: float", timeout=20)
    add("state", "c04-bare:state", "state_bare_scaling(a, 'B', 'C')", ["pre: 1e-3 < a < 1e3"], "bare state entries take the system's units (magnitude realised at the numpy boundary)", "a: float", timeout=20)
    add("nesting", "c04-nesting", "nesting_invariance(lv1, u1, lv2, u2, ex, g)", ["pre: 0 <= lv1 <= 5 and 0 <= u1 <= 10 and 0 <= lv2 <= 5 and 0 <= u2 <= 10 and 0 <= ex <= 2 and 0 <= g <= 1" if tier != "quick" else
                                                                                 "pre: 0 <= lv1 <= 5 and 0 <= u1 <= 10 and 0 <= lv2 <= 5 and u2 == (u1 * 3 + lv2 + 1) % 11 and 0 <= ex <= 2 and g == (u1 + lv1) % 2"],
        "declaring ANY of the 11 catalogue units systems at any one or two nesting levels (script, system, network, space, species, reaction; other levels inherit), with bare numbers re-scaled, explicit unit strings in that system, or explicit strings in a FOREIGN system (m, ms, mol), on a grid or a graph, yields the same physical script",
        "lv1: int, u1: int, lv2: int, u2: int, ex: int, g: int", viol="the physical content of a script depends on the units used to write it")
    add("default_state", "c04-default-state", "default_state_invariance(lv1, u1, lv2, u2, g)", ["pre: 0 <= lv1 <= 5 and 0 <= u1 <= 10 and 0 <= lv2 <= 5 and u2 == (u1 * 7 + lv1 + 3) % 11 and 0 <= g <= 1"],
        "the generated initial state (density x cell volume, no explicit state) is the same physical amount whichever one or two nesting levels declare a catalogue units system (incl. the space alone or the network alone), grid and graph",
        "lv1: int, u1: int, lv2: int, u2: int, g: int", viol="the generated initial state depends on where the units are declared")
    add("keywords", "c04-unit-keywords", "keyword_invariance(lv1, u1, lv2, g)", ["pre: 0 <= lv1 <= 5 and 0 <= u1 <= 10 and 0 <= lv2 <= 5 and 0 <= g <= 1"],
        "the string forms of a units declaration: \"default\" is the package default system whatever encloses the object, \"inherit\" the enclosing one - one level declares a catalogue system, another says \"default\", the others say \"inherit\"; the physical content is that of the reference script",
        "lv1: int, u1: int, lv2: int, g: int", viol="a units keyword (\"default\" / \"inherit\") resolves to the wrong units system")
    add("kinetics_mixed", "c04-kinetics-mixed-units", "kinetics_mixed_units(u1, u2, g)", ["pre: 0 <= u1 <= 10 and 0 <= u2 <= 10 and 0 <= g <= 1"],
        "per-environment dictionaries (D, rate constants) whose entries are written in two different catalogue systems: the Python rate of change (compute_dstatedt, SI) equals that of the same model in bare default-unit numbers, with neighbouring cells in the two environments (grid and graph)",
        "u1: int, u2: int, g: int", viol="the rate of change depends on the units in which per-environment entries are written")
    add("abi_k_mixed", "c04-abi-mixed-units", "abi_k_mixed(u1, u2, opt, g)", ["pre: 0 <= u1 <= 10 and u2 == (u1 * 3 + 4) % 11 and 0 <= opt <= 2 and 0 <= g <= 1"],
        "the rate-constant and diffusion vectors handed to the native engine are the same numbers whether the per-environment entries are written in bare default-unit numbers or in two different catalogue systems (3 environments, reactions of order 1 and 2, grid and graph, 3 engine kinds)",
        "u1: int, u2: int, opt: int, g: int", viol="what reaches the engine depends on the units in which per-environment entries are written")
    add("abi", "c04-abi", "abi_invariance(lv, u, eu, opt, ex, g)", ["pre: 0 <= lv <= 4 and 0 <= u <= 10 and 0 <= eu <= 10 and 0 <= opt <= 2 and 0 <= ex <= 2 and 0 <= g <= 1" if tier != "quick" else
                                                                     "pre: 0 <= lv <= 4 and 0 <= u <= 10 and eu == (u * 5 + lv) % 11 and 0 <= opt <= 2 and ex == (u + lv) % 3 and 0 <= g <= 1"],
        "the arrays handed to the native engine (state, volume, k, D, sample times, t_max, dt, interval), re-expressed in SI, do not depend on the units used to describe the script, for every engine kind and output units system",
        "lv: int, u: int, eu: int, opt: int, ex: int, g: int", viol="what reaches the engine depends on the units used to describe the model")
    add("mixed_array", "c04-mixed-array", "mixed_array(u1, u2, u3)", ["pre: 0 <= u1 <= 10 and 0 <= u2 <= 10 and 0 <= u3 <= 10"],
        "arrays built from quantities written in different unit systems (quantity objects, text, bare numbers; node volumes with per-node units; sample times) keep every element's physical value, for every triple of catalogue systems",
        "u1: int, u2: int, u3: int", viol="an explicit-unit quantity inside an array loses its physical value")
    add("default_tmax", "c04-default-tmax", "default_tmax(u1, u3, form, g)", ["pre: 0 <= u1 <= 10 and 0 <= u3 <= 10 and 0 <= form <= 2 and 0 <= g <= 1"],
        "t_max left at its default is the last sample time as a physical quantity, for sample times written in any catalogue system (list of quantities / quantity array / dictionary) under any script system: in the script, after a dictionary round trip and at the ABI (grid and graph set-up routines)",
        "u1: int, u3: int, form: int, g: int", viol="the default t_max is not the last sample time when the sample times carry their own units")
    add("litre_strings", "c04-explicit-strings", "explicit_volume_strings(k, where)", ["pre: 0 <= k <= 15 and 0 <= where <= 1"],
        "a bare number replaced by an explicit unit string keeps the physical value for EVERY symbol of the litre family (cell and node volumes) and of the molar family (densities, default state): "
        "'1 <symbol>' is the SI amount its definition gives and equals the same quantity written as a bare number", "k: int, where: int",
        viol="a volume / density written with a litre- or molar-family symbol is not the physical quantity that symbol denotes")
    add("output", "c04-output", "output_scaling(eu, opt)", ["pre: 0 <= eu <= 10 and 0 <= opt <= 2"], "engine output is reported in the script's units with the same SI value (every catalogue system, every engine kind)", "eu: int, opt: int")
    return "\n".join(L), conds


def run(rec):
    rec.assume("the engine computes on bare numbers (C01 is unit-free): invariance reduces to (a) the SI value stored for every dimensioned field, (b) the SI value of what is handed to the C ABI, (c) the inverse scaling of the outputs; deterministic trajectories then agree because the engine inputs agree")
    rec.assume("(a) is decided by CrossHair with a symbolic magnitude per field kind (floats as exact reals); (b), (c) and the nesting/inheritance combinations pass through dict/numpy/ctypes, which realise values: they are ENUMERATED exhaustively over the 11 catalogue systems (covering all 31 base symbols), nesting levels and engine kinds, with concrete magnitudes")
    rec.assume("the three load_*-based inheritance paths (file I/O) are outside; the rate-of-change leg is in C01 (kinetics with units_system)")
    for fn in ("valproc.process_unitvar_input / retrive_units_system_from_dict", "Species/Reaction/RDGridSpace/RDGraphSpaceNode/Edge setters", "RDScript time fields", "rdscript/rdsystem/rdnetwork/rdspace _from_dict (inheritance)",
               "LibRDEngine.setup/_setup_grid/_get_data/_get_t_sample", "build_reaction_rate_constant_matrix/build_diff_coef_environment_matrix"):
        rec.encoded(fn)
    text, conds = gen(rec.tier, rec.seed)
    mod = pysym.write_module("hgen_C04", text)
    pysym.run_auto(rec, mod, conds, default_timeout=120)
    engine_scale_freedom(rec)


def engine_scale_freedom(rec):
    """The reduction above needs the engine to be a function of the bare numbers with NO absolute scale of its own (no threshold,
    tolerance or constant that singles out a magnitude): one Euler step equals the (homogeneous, rational) rate law for ALL real
    values of state, k, D, geometry and dt - in particular for the same model written in units where D or k are 1e-20 or 1e+20."""
    from .. import catalogue
    from ..cxx.engine import program, ast_info
    from ..enginelegs import check_euler_step
    program()
    rec.extra["ast"] = ast_info()
    rec.assume("engine leg: the Euler step of the native engine is executed symbolically (cxx-sym) and proved equal to the rate law for all real values of state / k / D / dt, on one grid and one graph structure; the stochastic engines' propensities are proved equal to the law's terms for all values in C07")
    rec.encoded("Euler3D::Iterate / EulerGraph::Iterate, Build_mesh_kd / Build_node_kd (no magnitude-dependent branch)")
    # orders 0, 1, 2 on both space types; the cells' volume number is 8, not 1 (a law that is not homogeneous in the volume - a zero-order
    # source without its factor V - depends on the number the volume takes in the script's units)
    for netname, sd in (("ABC_bi", ("grid", 2, 1, 1, 1)), ("AB_rev", ("graph", "pair")), ("dimer_source", ("grid", 2, 1, 1, 1)), ("dimer_source", ("graph", "pair"))):
        check_euler_step(rec, netname, sd, label="engine step has no absolute scale: equals the rate law for every magnitude of state, k, D, dt")
