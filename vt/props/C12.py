"""C12 Dictionary, JSON and file round-trips preserve the model (dictionary and JSON-text levels)."""
from .. import pysym

SP_SYN = [["label", "l"], ["D", "diff_coef", "diffusion_coefficient", "diff coef", "diffusion coefficient"], ["density", "concentration", "dens", "conc", "C"], ["chstt", "chemostat"],
          ["units", "units_system", "units system", "u"]]
RE_SYN = [["stoichiometry", "eq", "sto", "equation"], ["label", "l"], ["k+", "kf"], ["k-", "kr"], ["units", "units_system", "units system", "u"]]
NET_SYN = [["species"], ["reactions"], ["environments", "env"], ["units", "units_system", "units system", "u"]]
GRID_SYN = [["type"], ["w", "width"], ["h", "height"], ["d", "depth"], ["cell_env", "cell_environments", "cell environments", "environments", "env"], ["cell_volume", "cell_vol"],
            ["boundary_conditions"], ["units", "units_system", "units system", "u"]]
NODE_SYN = [["volume", "vol"], ["environment", "env"], ["units", "units_system", "units system", "u"]]
SYS_SYN = [["network", "rdnetwork"], ["space", "rdspace"], ["state"], ["chemostats"], ["units", "units_system", "units system", "u"]]
SCR_SYN = [["system"], ["t_sample"], ["time_step", "time step", "dt"], ["t_max", "tmax"], ["sampling_policy", "sampling policy"], ["sampling_interval", "sampling interval"],
           ["rng_seed", "rng seed", "seed"], ["units", "units_system", "units system", "u"]]   # aliases documented for scripts (the mode key itself is covered by the round trip)


def gen(tier, seed):
    L = ["from harness.c12lib import *", "from harness.c12files import *", ""]
    conds = []

    def add(fn, sig, body, pre, what, args, timeout=None, viol=None):
        fn = "h_" + fn
        L.extend(["def %s(%s) -> bool:" % (fn, args), '    """'] + ["    " + p for p in pre] + ["    post: _", '    """', "    return " + body, ""])
        c = {"fn": fn, "what": what, "sig": sig, "structure": "dict round trip"}
        if timeout:
            c["timeout"] = timeout
        if viol:
            c["viol"] = viol
        conds.append(c)
    q = False   # the structural boxes are enumerated exhaustively in plain CPython (cheap): the full ranges are used in both tiers
    add("species", "c12-species", "rt(mk_species(u, fd, fn_, fc), species_to_dict, species_from_dict, same_species, SYS['C'])",
        ["pre: 0 <= u <= 4 and 0 <= fd <= 4 and 0 <= fn_ <= 4 and 0 <= fc <= 3" if not q else "pre: 0 <= u <= 2 and 0 <= fd <= 4 and fn_ == (fd + u) % 5 and 0 <= fc <= 3"],
        "species -> dict -> species keeps label, per-environment D / density (SI), chemostat flags, units; to_dict idempotent; through JSON text (units / scalar-vs-dict choices symbolic)",
        "u: int, fd: int, fn_: int, fc: int", timeout=400)
    add("reaction", "c12-reaction", "rt(mk_reaction(u, fe, fk, fl), reaction_to_dict, reaction_from_dict, same_reaction, SYS['C'])",
        ["pre: 0 <= u <= 4 and 0 <= fe <= 4 and 0 <= fk <= 8 and 0 <= fl <= 1" if not q else "pre: 0 <= u <= 1 and 0 <= fe <= 4 and 0 <= fk <= 8 and fl == (fe + fk) % 2"],
        "reaction -> dict -> reaction keeps stoichiometry, constants (SI), label (labelled / unlabelled, empty sides), units", "u: int, fe: int, fk: int, fl: int", timeout=500)
    add("network", "c12-network", "rt(mk_network(u, fi), rdnetwork_to_dict, rdnetwork_from_dict, same_network, SYS['C'])", ["pre: 0 <= u <= 4 and 0 <= fi <= 1"],
        "network -> dict -> network (own / inherited units at the species and reaction level)", "u: int, fi: int", timeout=300)
    add("grid", "c12-grid", "rt(mk_grid(u, w, h, d, bx, by, bz), rdgridspace_to_dict, rdgridspace_from_dict, same_space, SYS['C'])",
        ["pre: 0 <= u <= 4 and 1 <= w <= 3 and 1 <= h <= 2 and 1 <= d <= 2 and 0 <= bx <= 1 and 0 <= by <= 1 and 0 <= bz <= 1" if not q else
         "pre: 0 <= u <= 1 and 1 <= w <= 3 and 1 <= h <= 2 and d == 1 and 0 <= bx <= 1 and 0 <= by <= 1 and bz == bx"],
        "grid -> dict -> grid keeps sizes, environment map, cell volume (SI), boundary conditions per axis, units", "u: int, w: int, h: int, d: int, bx: int, by: int, bz: int", timeout=500)
    add("graph", "c12-graph", "rt(mk_graph(u, fnode, fedge), rdgraphspace_to_dict, rdgraphspace_from_dict, same_space, SYS['C'])", ["pre: 0 <= u <= 4 and 0 <= fnode <= 1 and 0 <= fedge <= 1" if not q else "pre: 0 <= u <= 1 and 0 <= fnode <= 1 and 0 <= fedge <= 1"],
        "graph -> dict -> graph incl. nodes and edges whose units differ from the graph's", "u: int, fnode: int, fedge: int", timeout=400,
        viol="a graph whose node / edge carries its own units system cannot be converted to a dictionary and back")
    add("system", "c12-system", "rt(mk_system(u, fs, fi), rdsystem_to_dict, rdsystem_from_dict, same_system, SYS['C'])", ["pre: 0 <= u <= 4 and 0 <= fs <= 1 and 0 <= fi <= 1" if not q else "pre: 0 <= u <= 1 and 0 <= fs <= 1 and fi == 1"],
        "system -> dict -> system keeps network, space, state (SI), chemostat map, units", "u: int, fs: int, fi: int", timeout=500)
    add("script", "c12-script", "rt(mk_script(u, fs, fp, fi, [0, 1, 2147483648, 4294967295][seed]), rdscript_to_dict, rdscript_from_dict, same_script)",
        ["pre: 0 <= u <= 4 and 0 <= fs <= 1 and 0 <= fp <= 3 and 0 <= fi <= 3 and 0 <= seed <= 3" if not q else "pre: u == 1 and 0 <= fs <= 1 and 0 <= fp <= 3 and fi == (fp + 1) % 4 and seed == (fp + fs) % 4"],
        "script -> dict -> script keeps system, sample times, time step, t_max, sampling policy / interval, seed, initial-state processing mode, units", "u: int, fs: int, fp: int, fi: int, seed: int", timeout=600,
        viol="a script does not survive the dictionary round trip (e.g. the initial-state processing mode is lost)")
    # aliases and defaults
    add("alias_species", "c12-alias", "alias_same(species_to_dict(mk_species(1, 1, 1, 1)), %r, g, w, species_from_dict, same_species, SYS['C'])" % SP_SYN, ["pre: 0 <= g <= 4 and 0 <= w <= 4"],
        "every accepted key alias of a species dictionary is interchangeable; two aliases of one key are refused", "g: int, w: int", timeout=300)
    add("alias_reaction", "c12-alias", "alias_same(reaction_to_dict(mk_reaction(1, 1, 4, 1)), %r, g, w, reaction_from_dict, same_reaction, SYS['C'])" % RE_SYN, ["pre: 0 <= g <= 4 and 0 <= w <= 3"],
        "reaction dictionary aliases", "g: int, w: int", timeout=300)
    add("alias_network", "c12-alias", "alias_same(rdnetwork_to_dict(mk_network(1, 1)), %r, g, w, rdnetwork_from_dict, same_network, SYS['C'])" % NET_SYN, ["pre: 0 <= g <= 3 and 0 <= w <= 3"],
        "network dictionary aliases", "g: int, w: int", timeout=300)
    add("alias_grid", "c12-alias", "alias_same(rdgridspace_to_dict(mk_grid(1, 2, 1, 1, 0, 1, 0)), %r, g, w, rdgridspace_from_dict, same_space, SYS['C'])" % GRID_SYN, ["pre: 0 <= g <= 7 and 0 <= w <= 4"],
        "grid dictionary aliases", "g: int, w: int", timeout=300)
    add("alias_system", "c12-alias", "alias_same(rdsystem_to_dict(mk_system(1, 0, 1)), %r, g, w, rdsystem_from_dict, same_system, SYS['C'])" % SYS_SYN, ["pre: 0 <= g <= 4 and 0 <= w <= 3"],
        "system dictionary aliases", "g: int, w: int", timeout=400)
    add("alias_script", "c12-alias", "alias_same(rdscript_to_dict(mk_script(1, 0, 1, 1, 5)), %r, g, w, rdscript_from_dict, same_script)" % SCR_SYN, ["pre: 0 <= g <= 7 and 0 <= w <= 2"],
        "script dictionary aliases", "g: int, w: int", timeout=500)
    L.extend(["def h_defaults() -> bool:", '    """', "    post: _", '    """',
              "    s = species_from_dict({'label': 'X'}, SYS['B'])",
              "    r = reaction_from_dict({'eq': 'X -> '}, SYS['B'])",
              "    g = rdgridspace_from_dict({}, SYS['B'])",
              "    ok = s.D.value == 0 and s.density.value == 0 and s.chstt == False and s.units_system == SYS['B']",
              "    ok = ok and r.kf.value == 0 and r.kr.value == 0 and r.label is None and r.units_system == SYS['B']",
              "    ok = ok and (g.w, g.h, g.d) == (1, 1, 1) and list(g.cell_env) == [0] and g.cell_vol.value == 1 and g.get_boundary_conditions() == {'x': 'reflecting', 'y': 'reflecting', 'z': 'reflecting'}",
              "    # the default volume is 1 IN THE UNITS OF THE SPACE (own declaration, or inherited), like an explicit \"cell_volume\": 1",
              "    for key in 'BCG':",
              "        for own in (0, 1):",
              "            dd = {'w': 2, 'units': {k: SYS[key][k] for k in ('space', 'time', 'quantity')}} if own else {'w': 2}",
              "            g0, g1 = rdgridspace_from_dict(dict(dd), SYS[key]), rdgridspace_from_dict(dict(dd, cell_volume=1), SYS[key])",
              "            ok = ok and si_eq(g0.cell_vol, g1.cell_vol) and si_eq(g0.cell_vol, UnitValue(1, Units(SYS[key], UnitsDimensions(3, 0, 0)))) and rdgridspace_to_dict(g0) == rdgridspace_to_dict(g1)",
              "            ok = ok and si_eq(RDGridSpace(w=2, units_system=SYS[key]).cell_vol, g1.cell_vol)",
              "    sc = rdscript_from_dict({'system': rdsystem_to_dict(mk_system(0, 0, 0)), 't_sample': [0, 2.0]})",
              "    ok = ok and sc.time_step.value == 1e-3 and sc.t_max.value == 2.0 and sc.sampling_policy == 'on_t_sample' and sc.sampling_interval.value == 1 and sc.init_state_processing == 'auto'",
              "    return ok", ""])
    add("script_times", "c12-script-times", "script_dict_times(u, tu)", ["pre: 0 <= u <= 4 and 0 <= tu <= 4"],
        "a script dictionary whose sample times carry their own unit (min, h, ms, s, µs; the script's unit differs): the loaded times are those physical times, the default t_max is the last of them, and a further dictionary / JSON round trip keeps them",
        "u: int, tu: int", viol="sample times written with their own unit are not read as those physical times")
    add("copy", "c12-copy", "copy_is_independent(kind, u)", ["pre: 0 <= kind <= 6 and 0 <= u <= 4"],
        "copy() of a species / reaction / network / grid / graph / system / script is an equal object that shares nothing mutable with the original: editing the copy at the top level and in nested parts leaves the original's dictionary unchanged",
        "kind: int, u: int", viol="copy() shares state with the original (or is not equal to it)")
    add("dict_after_edit", "c12-dict-after-edit", "dict_after_edit(kind, u)", ["pre: 0 <= kind <= 6 and 0 <= u <= 4"],
        "serialisation follows the CURRENT content: a species / reaction / network / grid / graph / system / script that was serialised, read back and copied once and is then edited serialises like a freshly built object given the same edit, "
        "and the dictionary read back describes the edited object", "kind: int, u: int", viol="the dictionary of an object edited after its first serialisation still describes (part of) the object as it was before the edit")
    add("units_arg", "c12-units-argument", "units_argument_not_aliased(kind)", ["pre: 0 <= kind <= 6"],
        "the units system handed to a constructor is copied: editing the caller's UnitsSystem afterwards changes nothing in the model (7 classes)", "kind: int",
        viol="a model object keeps a reference to the caller's UnitsSystem")
    # ---- file level (real file system, throw-away directory per evaluation)
    for kind in ("network", "space", "system", "script"):
        add("file_%s" % kind, "c12-file-%s" % kind, "file_rt(%r, u, fs, form)" % kind, ["pre: 0 <= u <= 4 and 0 <= fs <= 1 and 0 <= form <= 3"],
            "save_rd%s / load_rd%s: the loaded object has the same physical content and saving it again writes the same JSON (relative, absolute, sub-directory paths; loading from another working directory)" % (kind, kind),
            "u: int, fs: int, form: int", viol="a %s does not survive its save / load functions" % kind)
        conds[-1]["structure"] = "file round trip"
    add("file_traj", "c12-file-trajectory", "traj_rt(u, fs, form, sep, iname, suffix, cg)",
        ["pre: 0 <= u <= 1 and 0 <= fs <= 1 and 0 <= form <= 3 and 0 <= sep <= 1 and 0 <= iname <= 7 and 0 <= suffix <= 1 and 0 <= cg <= 1"],
        "save_rdtrajectory / load_rdtrajectory, both storage modes, 8 file names with and without the .json suffix: exactly <name>.json (+ <name>_data.npy next to it) is written and the loaded trajectory has the same data, times, system, script, engine text and cgmap",
        "u: int, fs: int, form: int, sep: int, iname: int, suffix: int, cg: int", viol="a trajectory does not survive save / load, or its files are written under another name or place")
    conds[-1]["structure"] = "file round trip"
    add("file_traj_pair", "c12-file-trajectory", "traj_no_collision(form, i1, i2, s1, s2)", ["pre: 0 <= form <= 2 and 0 <= i1 <= 7 and 0 <= i2 <= 7 and 0 <= s1 <= 1 and 0 <= s2 <= 1"],
        "two trajectories saved under different names in one directory are both loaded back unchanged (no shared data file)", "form: int, i1: int, i2: int, s1: int, s2: int",
        viol="two trajectories saved under different names share a data file")
    conds[-1]["structure"] = "file round trip"
    add("file_multi", "c12-file-multi", "multi_file(u, fs, arr, form)", ["pre: 0 <= u <= 4 and 0 <= fs <= 1 and 0 <= arr <= 2 and 0 <= form <= 3"],
        "multi-file layout: script file -> system file -> network / space files in a sub-directory + external state / chemostat / cell-environment arrays (.npy, .txt); relative paths resolve against the naming file, whatever the working directory",
        "u: int, fs: int, arr: int, form: int", viol="a multi-file description is not read back as the model it describes")
    conds[-1]["structure"] = "file round trip"
    conds.append({"fn": "h_defaults", "what": "omitted optional keys take the documented defaults (species, reaction, grid, script)", "sig": "c12-defaults", "structure": "dict round trip"})
    return "\n".join(L), conds


def run(rec):
    rec.assume("dictionary and JSON-text levels, plus the FILE level: save_* / load_* of networks, spaces, systems, scripts and trajectories (both storage modes), multi-file layouts with relative / absolute paths and external .npy / .txt arrays, executed on the real file system in a throw-away directory per evaluation (file I/O cannot be made symbolic: these legs are enumerated over path forms, names, unit-system and structure choices)")
    rec.assume("every parameter of these conditions is a small structural choice, so they are decided by EXHAUSTIVE ENUMERATION of the finite box in plain CPython (vt/enumrun.py), not by a solver: CrossHair's tracing makes one path cost ~1000 calls and adds no symbolic content here")
    rec.assume("structure choices (own vs inherited units at each level, scalar vs per-environment dictionaries, labelled vs unlabelled, empty sides, boundary condition per axis, sampling policy, init mode, sizes, seed) are solver variables; magnitudes are concrete because they pass through str(float) (CPython repr/float trusted)")
    for fn in ("species/reaction/rdnetwork _to_dict/_from_dict", "rdgridspace/rdgraphspace(node, edge) _to_dict/_from_dict", "rdsystem_to_dict/from_dict", "rdscript_to_dict/from_dict", "unitarray_to_dict/from_dict",
               "valproc.process_input_dict_keys/retrive_units_system_from_dict/format_unitvar_for_save", "save_/load_ rdnetwork, rdspace, rdsystem, rdscript, rdtrajectory; filepath.*; text_array_rw"):
        rec.encoded(fn)
    text, conds = gen(rec.tier, rec.seed)
    mod = pysym.write_module("hgen_C12", text)
    pysym.run_auto(rec, mod, conds, default_timeout=400)
