"""C17 Trajectory accessors all read the same array consistently."""
from .. import pysym


def gen(tier, seed):
    L = ["from harness.c17lib import *", ""]
    conds = []

    def add(fn, sig, body, pre, what, args, timeout=None, viol=None):
        fn = "h_" + fn
        L.extend(["def %s(%s) -> bool:" % (fn, args), '    """'] + ["    " + p for p in pre] + ["    post: _", '    """', "    return " + body, ""])
        c = {"fn": fn, "what": what, "sig": sig, "structure": "trajectory"}
        if timeout:
            c["timeout"] = timeout
        if viol:
            c["viol"] = viol
        conds.append(c)
    shapes = [("g211", 3, 2, 2), ("g321", 2, 3, 6), ("g111", 1, 2, 1), ("tri", 2, 3, 3), ("pair", 4, 2, 2)]
    if tier != "quick":
        shapes += [("g223", 2, 3, 12), ("g321", 1, 3, 6), ("g111", 3, 2, 1)]
    for kind, nsamp, ns, nc in shapes:
        add("index_%s_%d" % (kind, nsamp), "c17-index", "index_consistent(%r, %d, s, n, i)" % (kind, nsamp),
            ["pre: 0 <= s < %d and 0 <= n < %d and 0 <= i < %d" % (ns, nsamp, nc)],
            "point / per-sample / per-cell / whole-state / merged accessors and direct indexing read entry sample*S*C + species*C + cell (shape %d x %d x %d on %s; species by index, label and object)" % (nsamp, ns, nc, kind),
            "s: int, n: int, i: int", timeout=240)
    for kind, nsamp, ns, (w, h, d) in (("g321", 2, 3, (3, 2, 1)), ("g211", 3, 2, (2, 1, 1)), ("g132", 2, 3, (1, 3, 2))) + ((("g223", 2, 3, (2, 2, 3)),) if tier != "quick" else ()):
        add("coords_%s" % kind, "c17-coords", "coords_consistent(%r, %d, s, n, x, y, z)" % (kind, nsamp),
            ["pre: 0 <= s < %d and 0 <= n < %d and 0 <= x < %d and 0 <= y < %d and 0 <= z < %d" % (ns, nsamp, w, h, d)],
            "cells addressed by (x,y,z) read the same entry as by linear index (%s)" % kind, "s: int, n: int, x: int, y: int, z: int", timeout=240)
    add("defaults", "c17-defaults", "defaults_consistent('g321', 3, s, k)", ["pre: 0 <= s <= 2 and 0 <= k <= 10"],
        "arguments left at their defaults: get_trajectory(species) is the trajectory at position 0 without merging, get_sample_index(t) uses the 'closest' policy", "s: int, k: int",
        viol="a default argument of a trajectory accessor does not mean what the documentation says")
    add("relist", "c17-species-relist", "species_after_relist(order, extra, s, n, i)", ["pre: 0 <= order <= 5 and 0 <= extra <= 1 and 0 <= s <= 3 and 0 <= n <= 2 and 0 <= i <= 1"],
        "species given by label or object resolve to their CURRENT position after the network's species list was reassigned (all 6 orders, with / without a new species in front) following earlier look-ups: by label == by object == by index == the data entry",
        "order: int, extra: int, s: int, n: int, i: int", viol="after the network's species list was reassigned, a label / object still resolves to the species' OLD position: the accessor returns another species' block")
    for unit, factor in (("s", 1.0), ("ms", 1e-3), ("min", 60.0), ("h", 3600.0)):
        for policy in ("closest", "infeq", "supeq"):
            add("lookup_%s_%s" % (unit, policy), "c17-lookup:%s" % policy, "lookup_ok((t0, t1, t2), t, %r, %r, %r)" % (unit, factor, policy),
                ["pre: 0 <= t0 < t1 < t2 < 1e6 and -1e6 < t < 1e9"],
                "sample-index lookup '%s' equals its definition for three symbolic sample times and a symbolic query time in %s" % (policy, unit),
                "t0: float, t1: float, t2: float, t: float", timeout=180)
    add("lookup_single", "c17-lookup:single", "all(lookup_ok((t0,), t, 's', 1.0, p) for p in ('closest', 'infeq', 'supeq'))", ["pre: 0 <= t0 < 1e6 and -1e6 < t < 1e9"],
        "single-sample trajectory: lookup equals its definition", "t0: float, t: float")
    add("lookup_four", "c17-lookup:four", "all(lookup_ok((t0, t1, t2, t3), t, 'ms', 1e-3, p) for p in ('closest', 'infeq', 'supeq'))",
        ["pre: 0 <= t0 < t1 < t2 < t3 < 1e6 and -1e6 < t < 1e9"], "four symbolic sample times, query in ms, all three policies", "t0: float, t1: float, t2: float, t3: float, t: float", timeout=300)
    return "\n".join(L), conds


def run(rec):
    rec.assume("index accessors: data = 0,1,2,... (numpy; symbolic indices are realised, i.e. every (species, sample, cell) triple of the shape is enumerated by CrossHair); shapes from a small catalogue with nsamples, nspecies, ncells all different where possible")
    rec.assume("sample-index lookup: the time array is a duck-typed stand-in whose get_at returns UnitValue(symbolic time) - the lookup only uses get_at/len/units; floats are exact reals, so unit conversion of the query (decimal constants) is exact in the model")
    for fn in ("RDTrajectory.get_trajectory_point/get_state/get_trajectory", "RDTrajectory.get_sample_index/_get_sample_index_closest/_infeq/_supeq", "RDNetwork.get_species_index", "RDGridSpace.get_cell_index"):
        rec.encoded(fn)
    text, conds = gen(rec.tier, rec.seed)
    mod = pysym.write_module("hgen_C17", text)
    pysym.run_auto(rec, mod, conds, default_timeout=120)
