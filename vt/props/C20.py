"""C20 Invalid input is rejected, never silently accepted."""
from .. import pysym


def gen(tier, seed):
    L = ["from harness.c20lib import *", ""]
    conds = []

    def add(fn, sig, body, pre, what, args, timeout=None, viol=None, force=False):
        fn = "h_" + fn
        L.extend(["def %s(%s) -> bool:" % (fn, args), '    """'] + ["    " + p for p in pre] + ["    post: _", '    """', "    return " + body, ""])
        c = {"fn": fn, "what": what, "sig": sig, "structure": "invalid input"}
        if timeout:
            c["timeout"] = timeout
        if viol:
            c["viol"] = viol
        if force:
            c["force_crosshair"] = True
        conds.append(c)
    names = ["species", "reaction", "network", "grid", "node", "edge", "graph", "system", "script", "unitssystem", "unitarray"]
    for k, nm in enumerate(names):
        add("unknown_key_%s" % nm, "c20-unknown-key", "unknown_key_rejected(%d, key)" % k, ["pre: 1 <= len(key) <= 2 and all(c in 'lDuwkx+ _' for c in key)"],
            "an unknown dictionary key (every string of <= 2 characters over 'lDuwkx+ _' that is not an accepted key) is refused by the %s reader" % nm, "key: str", timeout=200)
        add("missing_key_%s" % nm, "c20-missing-key", "missing_key_rejected(%d, j)" % k, ["pre: 0 <= j <= 2"], "a missing mandatory key is refused by the %s reader" % nm, "j: int")
    add("double_alias", "c20-double-alias", "double_alias_rejected(k, g, a, b)", ["pre: 0 <= k <= 8 and 0 <= g <= 8 and 0 <= a <= 4 and 0 <= b <= 4"],
        "a dictionary holding two spellings of one field (the canonical key with an alias, or two aliases, either order) is refused by each of the 9 readers that accept aliases (every field group, every ordered pair of spellings)",
        "k: int, g: int, a: int, b: int", viol="a doubly-aliased dictionary key is accepted (one value silently overrides the other)")
    from harness_fields import FIELD_NAMES
    for f in FIELD_NAMES:
        add("dim_%s" % f, "c20-dimension:%s" % f, "wrong_dimension_rejected(%r, s, t, q)" % f, ["pre: -3 <= s <= 3 and -2 <= t <= 2 and -2 <= q <= 2"],
            "a quantity whose dimension vector is not that of the field '%s' is refused, whether written in a foreign units system or in the receiving object's own (every vector of [-3,3]x[-2,2]x[-2,2]; the right one accepted)" % f, "s: int, t: int, q: int",
            viol="a quantity of the wrong dimension is accepted for field %s" % f)
    for kind in ("space", "time", "quantity"):
        add("symbol_%s" % kind, "c20-unit-symbol", "bad_symbol_rejected(%r, sym)" % kind, ["pre: 1 <= len(sym) <= 3 and all(c in 'mskhoulcdµ' for c in sym)"],
            "an unsupported %s unit symbol (every string of <= 3 characters over 'mskhoulcdµ' outside the table) is refused" % kind, "sym: str", timeout=300)
    add("sizes", "c20-grid-size", "nonpositive_size_rejected(w, h, d)", ["pre: -2 <= w <= 2 and -2 <= h <= 2 and -2 <= d <= 2"], "non-positive grid sizes are refused", "w: int, h: int, d: int")
    add("sizes_unbounded", "c20-grid-size", "nonpositive_size_rejected(w, 1, 2)", ["pre: w <= 0"], "every non-positive width is refused (unbounded)", "w: int", timeout=60, force=True)
    add("cell_env_len", "c20-cell-env-length", "cell_env_length_rejected(n)", ["pre: 0 <= n <= 12"], "an environment map of the wrong length is refused", "n: int")
    for kind in ("grid", "graph"):
        for ex in (0, 1):
            add("env_index_%s_%d" % (kind, ex), "c20-env-index", "env_index_rejected(%r, e, %d)" % (kind, ex), ["pre: -4 <= e <= 5"],
                "an environment index outside [0, n_env) - negative or too large - is refused when the system is built or first used (%s, %s state)" % (kind, "explicit" if ex else "default"), "e: int",
                viol="an environment index outside the environment list (e.g. a negative one) is silently accepted")
    for what, alpha in (("bc", "reflctingpodaRx "), ("axis", "xyzXw "), ("policy", "on_tsamplei x"), ("isp", "autoneAPisrd x")):
        add("choice_%s" % what, "c20-choice:%s" % what, "bad_choice_rejected(%r, t)" % what, ["pre: len(t) <= 2 and all(c in %r for c in t)" % alpha], "unknown %s strings (<= 2 characters) are refused" % what, "t: str", timeout=200)
        L.extend(["def h_choice_near_%s(k: int) -> bool:" % what, '    """', "    pre: 0 <= k <= 7", "    post: _", '    """',
                  "    base = {'bc': 'periodical', 'axis': 'x', 'policy': 'on_t_sample', 'isp': 'Poisson'}[%r]" % what,
                  "    t = [base + ' ', ' ' + base, base.upper(), base[:-1], base + 'x', '', base.capitalize() if base != 'Poisson' else 'poisson', base * 2][k]",
                  "    return bad_choice_rejected(%r, t)" % what, ""])
        conds.append({"fn": "h_choice_near_%s" % what, "what": "near-miss spellings of a valid %s value are refused" % what, "sig": "c20-choice:%s" % what, "structure": "invalid input"})
    add("environments", "c20-environments", "environments_rejected(k)", ["pre: 0 <= k <= 5"], "empty environment list, the reserved name 'default' and non-string names are refused, given as list / tuple / numpy array, through the constructor and the setter (a refused assignment changes nothing)", "k: int")
    for kind, form in (("grid", "index"), ("grid", "tuple"), ("grid", "object"), ("graph", "index")):
        add("pos_%s_%s" % (kind, form), "c20-position", "position_rejected(%r, %r, i, x, y, z)" % (kind, form),
            ["pre: i == 0 and -2 <= x <= 4 and -2 <= y <= 3 and -2 <= z <= 3" if form != "index" else "pre: -8 <= i <= 14 and x == 0 and y == 0 and z == 0"],
            "positions outside the space (%s, %s form) raise in every accessor of RDSystem / space / kinetics and leave state and chemostats unchanged" % (kind, form), "i: int, x: int, y: int, z: int",
            viol="an out-of-range position is accepted by an accessor or modifies the state")
    add("index_map", "c20-index-map", "index_map_rejected(a, b, c, d, e, f)", ["pre: " + " and ".join(("-2 <= %s <= 2" if (tier == "thorough" or v in "ab") else "-1 <= %s <= 1") % v for v in "abcdef")],
        "coarse-graining maps that break a documented rule (entry < -1, no group, a missing group index, a group mixing environments) are refused by coarsegrain_system and coarsegrain_grid (3x2x1 grid, three environment layouts, every map over " + ("[-2,2]^6" if tier == "thorough" else "[-2,2]^2 x [-1,1]^4") + ")",
        "a: int, b: int, c: int, d: int, e: int, f: int", viol="a coarse-graining map that violates the documented rules is accepted")
    add("undeclared_species", "c20-undeclared-species", "undeclared_species_rejected(side, pos, form)", ["pre: 0 <= side <= 2 and 0 <= pos <= 2 and 0 <= form <= 1"],
        "a network refuses reactions that name a species it does not declare - reactant side only, PRODUCT side only (also with coefficient 0), both sides - at any position of the reaction list, through the constructor and the dictionary reader",
        "side: int, pos: int, form: int", viol="a reaction naming an undeclared species is accepted")
    for kind in ("index", "label", "object"):
        add("species_%s" % kind, "c20-unknown-species", "unknown_species_rejected(%r, sp)" % kind, ["pre: -3 <= sp <= 6"], "unknown species (%s form) raise and leave the state unchanged" % kind, "sp: int")
    for what in ("state", "state_array", "chemostats", "setter"):
        add("length_%s" % what, "c20-length:%s" % what, "wrong_length_rejected(%r, n)" % what, ["pre: 0 <= n <= 12"], "a %s whose length is not nspecies*ncells is refused" % what, "n: int",
            viol="a %s of the wrong length is silently accepted" % what)
    return "\n".join(L), conds


def run(rec):
    import os
    import sys
    from ..common import VERIF
    # field names are needed to generate the conditions
    with open(os.path.join(pysym.gen_dir(), "harness_fields.py"), "w") as fh:
        fh.write("FIELD_NAMES = ['density', 'D', 'density_env', 'D_env', 'cell_vol', 'node_volume', 'edge_surface', 'edge_distance', 'time_step', 't_max', 'sampling_interval', 't_sample', 'state', 'set_state', 't_sample_list', 'state_list', 'unitarray_list']\n")
    sys.path.insert(0, pysym.gen_dir())
    rec.assume("the offending value is the quantified parameter: strings of bounded length over a stated alphabet and unbounded integers are explored by CrossHair; dimension vectors, indices, sizes and positions in finite boxes are enumerated exhaustively in plain CPython (recorded per condition)")
    rec.assume("rate constants of the wrong order are decided by C19; coarse-graining maps are also decided (accepted iff valid, larger shapes) by C16")
    for fn in ("valproc.process_input_dict_keys + the 11 *_from_dict readers", "valproc.process_unitvar_input (every dimensioned setter)", "UnitsSystem._check_*", "RDGridSpace.__init__/cell_env/set_boundary_conditions",
               "RDNetwork.environments", "RDScript.sampling_policy/init_state_processing", "RDSystem accessors, kinetics functions (positions, species)", "RDSystem.state/chemostats setters"):
        rec.encoded(fn)
    text, conds = gen(rec.tier, rec.seed)
    mod = pysym.write_module("hgen_C20", text)
    pysym.run_auto(rec, mod, conds, default_timeout=200)
