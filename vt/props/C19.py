"""C19 Reaction equations: stoichiometry, order and rate-constant dimensions."""
import random

from .. import pysym


def gen(tier, seed):
    rnd = random.Random(seed)
    L = ["from harness.c19lib import *", ""]
    conds = []

    def add(fn, sig, body, pre, what, args, timeout=None, viol=None):
        fn = "h_" + fn
        L.extend(["def %s(%s) -> bool:" % (fn, args), '    """'] + ["    " + p for p in pre] + ["    post: _", '    """', "    return " + body, ""])
        c = {"fn": fn, "what": what, "sig": sig, "structure": "reactions"}
        if timeout:
            c["timeout"] = timeout
        if viol:
            c["viol"] = viol
        conds.append(c)
    shapes = [
        ("[(c1, 'A'), (c2, 'B')]", "[(2, 'C')]"), ("[(c1, 'A'), (c2, 'A')]", "[(1, 'B'), (3, 'A')]"), ("[]", "[(c1, 'A'), (c2, 'Bx')]"), ("[(c1, 'A'), (2, 'B'), (c2, 'C'), (1, 'A')]", "[]"),
        ("[(1, 'A'), (c1, 'B')]", "[(c2, 'C'), (1, 'C'), (2, 'A'), (1, 'B')]"),
    ]
    if tier != "quick":
        labs = ["A", "B", "C", "Bx", "A1"]
        for _ in range(8):
            def side(n):
                return "[" + ", ".join("(%s, %r)" % (rnd.choice(["c1", "c2", str(rnd.randint(0, 9))]), rnd.choice(labs)) for _ in range(n)) + "]"
            shapes.append((side(rnd.randint(0, 4)), side(rnd.randint(0, 4))))
    for k, (s, p) in enumerate(shapes):
        for omit in (True, False):
            add("stoich_%d_%d" % (k, omit), "c19-stoich", "stoich_ok(%s, %s, sp, ['A', 'B', 'C', 'Bx', 'A1'], %s)" % (s, p, omit),
                ["pre: 0 <= c1 <= 9 and 0 <= c2 <= 9 and 0 <= sp <= 4" if tier != "quick" else "pre: 0 <= c1 <= 9 and 0 <= c2 <= 4 and sp == %d" % ((2 * k + omit) % 5)], "equation %s -> %s: coefficient vectors, net change, orders, print-parse (coefficients and spacing symbolic)" % (s, p),
                "c1: int, c2: int, sp: int", timeout=240)
    add("kdims", "c19-kdims", "kdims_ok(n, m)", ["pre: 0 <= n <= 8 and 0 <= m <= 8"], "rate-constant dimensions are (3n-3, -1, 1-n) for orders 0..8 on both sides", "n: int, m: int", timeout=120)
    for us in ("A", "B", "C") if tier == "quick" else "ABCDEFGHIJK":
        add("bare_%s" % us, "c19-bare-number", "bare_units_ok(a, b, n, m, %r)" % us, ["pre: 0 <= a < 1e9 and 0 <= b < 1e9 and 0 <= n <= 4 and 0 <= m <= 4"],
            "bare rate constants get exactly the units of their order in the reaction's units system (%s)" % us, "a: float, b: float, n: int, m: int", timeout=120)
        add("split_%s" % us, "c19-split", "split_ok(a, b, %r)" % us, ["pre: 0 <= a < 1e9 and 0 <= b < 1e9"], "split gives two irreversible reactions with the same constants (%s)" % us, "a: float, b: float")
        add("K_%s" % us, "c19-K", "K_ok(a, b, %r)" % us, ["pre: 1e-6 < a < 1e6 and 0 <= b < 1e6"], "equilibrium constant = kf/kr, None iff kr = 0 (%s)" % us, "a: float, b: float")
    add("abi_stoichiometry", "c19-abi-stoichiometry", "abi_stoichiometry(q, a, b, c, d, opt)", ["pre: 0 <= q <= 3 and 1 <= a <= 3 and 0 <= b <= 3 and 1 <= c <= 2 and 0 <= d <= 3 and 0 <= opt <= 2"],
        "the coefficient vectors handed to the native engine (per forward / reverse half: reactant coefficients and net change) are those of the reaction, also when a species stands on both sides of the arrow (catalyst, autocatalysis, partial consumption); coefficients symbolic in small ranges, 4 reaction shapes, 3 engine kinds",
        "q: int, a: int, b: int, c: int, d: int, opt: int", viol="the stoichiometric vectors handed to the engine are not the reaction's")
    conds[-1]["enumerate"] = True
    L.extend(["def h_abi_k_mixed(u1: int, opt: int, g: int) -> bool:", '    """', "    pre: 0 <= u1 <= 10 and 0 <= opt <= 2 and 0 <= g <= 1", "    post: _", '    """',
              "    from harness.c04lib import abi_k_mixed", "    return abi_k_mixed(u1, (u1 * 5 + 2) % 11, opt, g)", ""])
    conds.append({"fn": "h_abi_k_mixed", "what": "the per-environment rate constants of a reaction (orders 1 and 2, three environments, entries written in different units) reach the native engine with their physical values, entry by entry",
                  "sig": "c19-abi-rate-constants", "structure": "reactions", "enumerate": True, "viol": "the rate-constant vector handed to the engine is not the per-environment constants of the reactions"})
    add("digit_labels", "c19-stoichiometry", "digit_labels_ok(k, c1, c2, spaced)", ["pre: 0 <= k <= 3 and 1 <= c1 <= 3 and 1 <= c2 <= 2 and 0 <= spaced <= 1"],
        "species labels that START with a digit (3PG, 13BPG, 2, 12, 2x, 1A): the coefficient is the leading integer separated from the label by a blank, a term without such a blank is a label; "
        "stoichiometry vectors, order, print -> parse (from text and from the dictionary form)", "k: int, c1: int, c2: int, spaced: int",
        viol="the leading digits of a species label are read as a coefficient")
    conds[-1]["enumerate"] = True
    add("K_dict_units", "c19-K", "K_dict_units(f1, f2, 'ABG'[u])", ["pre: 0 <= f1 <= 3 and 0 <= f2 <= 3 and 0 <= u <= 2"],
        "per-environment constants written with their own units (M-1.s-1, µm3/molecule/s, mM-1.min-1, bare; min-1, ms-1, h-1, bare) under 3 reaction systems: every K[e] is the physical ratio kf[e]/kr[e], "
        "equal to the scalar form's K for the same constants and to the ratio of the split halves' constants", "f1: int, f2: int, u: int",
        viol="the per-environment equilibrium constant is not the physical ratio of the two constants when they are written in other units than the reaction's")
    conds[-1]["enumerate"] = True
    add("split_after_edit", "c19-split-after-edit", "split_after_edit(how, form, 'ABG'[u])", ["pre: 0 <= how <= 4 and 0 <= form <= 1 and 0 <= u <= 2"],
        "a Reaction whose constants are edited AFTER split() / K were evaluated once (kf setter, kr setter, set_k, units system replaced, dictionary edited in place; scalar and per-environment values; 3 unit systems) "
        "splits into the halves of a fresh reaction with the edited content, and K is the ratio of the current constants", "how: int, form: int, u: int",
        viol="split() / K of a reaction still use the constants it had when they were first evaluated: after kf / kr are edited, the halves (and the simulation built from them) keep the old constant")
    conds[-1]["enumerate"] = True
    for form in (0, 1):
        add("K_mixed_%d" % form, "c19-K", "K_mixed_ok(a, b, %d)" % form, ["pre: 1e-6 < a < 1e6 and 0 <= b < 1e6"],
            "equilibrium constant when only %s is a per-environment dictionary (kr = 0 gives None)" % ("kr" if form == 0 else "kf"), "a: float, b: float")
    add("K_dict", "c19-K", "K_dict_ok(a, b, c)", ["pre: 1e-6 < a < 1e6 and 0 <= b < 1e6 and 0 <= c < 1e6"], "per-environment equilibrium constants", "a: float, b: float, c: float")
    for which in ("kf", "kr"):
        for n in ((0, 1, 2, 3) if tier == "quick" else range(0, 9)):
            add("wrong_dims_%s_%d" % (which, n), "c19-wrong-dims", "wrong_dims_raise(1.5, %d, s, t, q, 'B', %r)" % (n, which),
                ["pre: -6 <= s <= 24 and -3 <= t <= 2 and -8 <= q <= 3 and (s, t, q) != (%d, -1, %d)" % (3 * n - 3, 1 - n)],
                "a %s quantity whose dimension differs from that of order %d is rejected (dimension vector symbolic in [-6,24]x[-3,2]x[-8,3]; the magnitude is concrete: an explicit quantity is deep-copied by the setter, which realises symbolic floats)" % (which, n),
                "s: int, t: int, q: int", timeout=150)
    for n in ((0, 2) if tier == "quick" else range(0, 5)):
        add("wrong_dims_env_%d" % n, "c19-wrong-dims-env", "wrong_dims_raise_env(%d, s, t, q, 'B', form)" % n,
            ["pre: %d <= s <= %d and -2 <= t <= 0 and %d <= q <= %d and 0 <= form <= 4 and (s, t, q) != (%d, -1, %d)" % (3 * n - 5, 3 * n - 1, -n, 2 - n, 3 * n - 3, 1 - n)],
            "per-environment constants (environment key, shared 'a,b' key, 'default', text) of a dimension other than that of order %d are rejected" % n, "s: int, t: int, q: int, form: int",
            viol="a per-environment rate constant of the wrong dimension is accepted", timeout=300)
    add("right_dims", "c19-right-dims", "right_dims_kept(a, n, 'C', 'D')", ["pre: 1e-3 < a < 1e3 and 0 <= n <= 4"], "an explicit quantity of the right dimension keeps its physical value (magnitude realised by the setter's deepcopy: not exhaustive)", "a: float, n: int", timeout=20)
    for which in ("undeclared-substrate", "undeclared-product", "dup-species", "dup-reaction-label"):
        add("net_%s" % which.replace("-", "_"), "c19-network", "network_rejects(%r, pos)" % which, ["pre: 0 <= pos <= 2"], "a network refuses %s at any position" % which, "pos: int")
    alpha = "a1 \t+->"
    add("labels", "c19-labels", "label_rule(l)", ["pre: 1 <= len(l) <= 3 and all(c in %r for c in l)" % alpha],
        "labels of <= 3 characters over %r are accepted iff they contain no white space, no '+' and no '->'" % alpha, "l: str", timeout=300,
        viol="label rule: a label containing white space, '+' or '->' is accepted (or a valid one refused)")
    return "\n".join(L), conds


def run(rec):
    rec.assume("coefficients 0..9 (two symbolic per equation, realised when formatted into the text), five spacing patterns, orders 0..8, labels of <= 3 characters over a 7-character alphabet; floats are exact reals")
    for fn in ("Reaction._fromstring/to_string/ssto/psto/dsto/order/rorder", "Reaction.kf_units_dimensions/kr_units_dimensions", "Reaction.kf/kr setters (process_unitvar_input)", "Reaction.split", "Reaction.equilibrium_constant",
               "RDNetwork._assert_validity", "assert_string_is_a_valid_label"):
        rec.encoded(fn)
    text, conds = gen(rec.tier, rec.seed)
    mod = pysym.write_module("hgen_C19", text)
    pysym.run_auto(rec, mod, [c for c in conds if c.get("enumerate")])
    pysym.run_conditions(rec, mod, [c for c in conds if not c.get("enumerate")], default_timeout=90)
