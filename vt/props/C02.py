"""C02 Every engine conserves every conservation law of the network."""
from .. import catalogue
from ..enginelegs import check_euler_step
from ..stochlegs import gillespie_stage1, gillespie_stage2, tauleap_step, conservation_per_path
from ..cxx.engine import ast_info, program


def chem_patterns(ns, nc, tier):
    """flag maps (species-major): none; one species flagged everywhere (when ns > 1)."""
    pats = [None]
    if ns > 1:
        pats.append([1 if s == ns - 1 else 0 for s in range(ns) for i in range(nc)])
    if ns > 2:
        # a species in the MIDDLE of the species list flagged (in one cell only when there are several)
        pats.append([1 if (s == 1 and (i == 0 or nc == 1)) else 0 for s in range(ns) for i in range(nc)])
    if tier != "quick" and ns > 1:
        pats.append([1 if s == 0 else 0 for s in range(ns) for i in range(nc)])
    return pats


def structures(tier, seed):
    if tier == "quick":
        return [("AB_rev", ("grid", 2, 1, 1, 1)), ("ABC_bi", ("graph", "triangle")), ("order3_repeat", ("grid", 2, 2, 1, 4)),
                ("none", ("graph", "path_isolated")), ("none", ("grid", 3, 1, 1, 1)), ("dimer_source", ("graph", "pair")),
                ("AB_rev", ("graph", "parallel")), ("order4", ("grid", 2, 1, 1, 0)), ("quad", ("grid", 2, 1, 1, 1)),
                ("none", ("grid", 1, 2, 2, 2)), ("AB_rev", ("grid", 1, 1, 3, 3)), ("none", ("grid", 2, 1, 2, 0))]       # flat grids: a unit-size axis BELOW an extended one (index offsets of two axes coincide)
    return catalogue.pairs("thorough", seed, engine_multigraph=True)


def run(rec):
    program()
    rec.extra["ast"] = ast_info()
    rec.assume("doubles are exact reals ('to rounding' for the Euler engine means exact equality in real arithmetic)")
    rec.assume("one inductive step from an ARBITRARY non-negative state, arbitrary k, D, surfaces, distances, dt and arbitrary random draws: trajectories of any length follow by induction; the invariant is only 'tables as built by Init'")
    rec.assume("for every basis vector c of the integer left null space restricted to species that are chemostated nowhere, c.total is proved unchanged; every other conserved combination is an integer combination of these (linear algebra, not done by the solver)")
    rec.assume("Gillespie: cut at the propensity tables (fresh non-negative tables, see C07) - conservation is proved for EVERY selectable event, legal or not")
    for fn in ("Euler3D/EulerGraph::Iterate", "TauLeap3D/TauLeapGraph::Iterate (Compute_nevt, Apply_nevt)", "Gillespie3D/GillespieGraph::Iterate (DrawAndApplyEvent, ApplyReaction, ApplyDiffusion)",
               "engineexport_initialize_grid/graph, iterate, get_state, get_trajectory", "LibRDEngine.setup (real, recording stand-in)"):
        rec.encoded(fn)
    items = []
    for netname, sd in structures(rec.tier, rec.seed):
        sysm = catalogue.build(netname, sd)
        ns, nc = len(sysm.network.species), sysm.space.size()
        for chem in chem_patterns(ns, nc, rec.tier):
            for eng in ("euler", "tauleap", "gillespie"):
                items.append((netname, sd, chem, eng))
    rec.parallel(_work, items, item_budget_s=240 if rec.tier == "quick" else 900)


def _work(rec, item):
    netname, sd, chem, eng = item
    if eng == "euler":
        check_euler_step(rec, netname, sd, chem, per_path=conservation_per_path(rec, "euler"))
    elif eng == "tauleap":
        tauleap_step(rec, netname, sd, chem, per_path=conservation_per_path(rec, "tauleap"), only_per_path=True)
    else:
        facts = gillespie_stage1(rec, netname, sd, chem)
        gillespie_stage2(rec, facts, netname, sd, chem, per_path=conservation_per_path(rec, "gillespie"), only_per_path=True)
