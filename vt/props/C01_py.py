"""py-sym legs of C01: kinetics functions and make_dxdtf equal the reference law for every state."""
from .. import pysym


def gen(tier, seed, chem_mode=False):
    L = ["from harness.c01lib import *", ""]
    conds = []

    def add(fn, sig, body, pre, what, args, timeout=None, viol=None):
        fn = "h_" + fn
        L.extend(["def %s(%s) -> bool:" % (fn, args), '    """'] + ["    " + p for p in pre] + ["    post: _", '    """', "    return " + body, ""])
        c = {"fn": fn, "what": what, "sig": sig, "structure": "kinetics"}
        if timeout:
            c["timeout"] = timeout
        if viol:
            c["viol"] = viol
        conds.append(c)
    structs = [("ab_grid2", 2, 2), ("abc_pair", 3, 2), ("ab_grid12", 2, 2)] if tier == "quick" else [("ab_grid2", 2, 2), ("ab_grid2p", 2, 2), ("abc_pair", 3, 2), ("o3_grid3", 3, 3), ("ab_tri", 2, 3), ("ab_grid12", 2, 2)]
    for name, ns, nc in structs:
        n = ns * nc
        args = ", ".join("x%d: float" % k for k in range(n))
        pre = " and ".join("0.001 < x%d < 1000" % k for k in range(n))
        xs = "(%s)" % ", ".join("x%d" % k for k in range(n))
        pairs = [(s, i) for s in range(ns) for i in range(nc)]
        if tier == "quick":
            pairs = pairs[::2] if n > 4 else pairs
        for (s, i) in pairs:
            add("dsp_%s_%d_%d" % (name, s, i), "c01-kinetics", "dspecies_ok(%r, %d, %d, %s)" % (name, s, i, xs), ["pre: " + pre],
                "compute_dspeciesdt(species %d, cell %d) == mass-action + Bernstein law, dimension amount/time, for EVERY state (%s)" % (s, i, name), args, timeout=150 if tier == "quick" else 600,
                viol="the kinetics functions disagree with the documented rate law")
        add("rates_%s" % name, "c01-reaction-rates", "rates_ok(%r, 0, %d, %s)" % (name, nc - 1, xs), ["pre: " + pre], "compute_reaction_rates forward/backward pair == k V prod (x/V)^a (%s)" % name, args, timeout=300)
    for name in ("none1", "dimer1", "ab_grid2", "abc_pair", "abc1"):
        L.extend(["def h_dstate_%s() -> bool:" % name, '    """', "    post: _", '    """', "    return dstate_shape_ok(%r)" % name, ""])
        conds.append({"fn": "h_dstate_%s" % name, "what": "compute_dstatedt returns one amount/time quantity per (species, cell) equal to the law, also on single-cell / reaction-free systems (%s)" % name,
                      "sig": "c01-dstatedt:%s" % name, "structure": "kinetics", "viol": "compute_dstatedt fails or returns something that is not an amount/time quantity"})
    for name, ns in (("abc1", 3), ("dimer1", 1)):
        args = ", ".join("x%d: float" % k for k in range(ns))
        pre = " and ".join("0.001 < x%d < 1000" % k for k in range(ns))
        add("dxdtf_%s" % name, "c01-dxdtf", "dxdtf_ok(%r, (%s,))" % (name, ", ".join("x%d" % k for k in range(ns))), ["pre: " + pre], "make_dxdtf()(t, x) == the law on a single-cell system for EVERY x (%s)" % name, args, timeout=300)
    for name, ns, us in (("dimer1", 1, "B"), ("abc1", 3, "G"), ("dimer1", 1, "J")):
        args = ", ".join("x%d: float" % k for k in range(ns))
        pre = " and ".join("0.001 < x%d < 1000" % k for k in range(ns))
        add("dxdtf_units_%s_%s" % (name, us), "c01-dxdtf-units", "dxdtf_units_ok(%r, %r, (%s,))" % (name, us, ", ".join("x%d" % k for k in range(ns))), ["pre: " + pre],
            "make_dxdtf(units_system=%s)(t, x) with x in that system's amount unit == the law, compared in SI, for EVERY x (%s: reactions of order != 1 make the volume factor matter)" % (us, name), args, timeout=300,
            viol="the exported right-hand side in a requested units system is not the rate law")
    for us in ("B", "G"):
        add("units_%s" % us, "c04-rate-units", "units_invariance_ok('ab_grid2', 0, 1, %r, (x0, x1, x2, x3))" % us, ["pre: 0.001 < x0 < 1000 and 0.001 < x1 < 1000 and 0.001 < x2 < 1000 and 0.001 < x3 < 1000"],
            "the rate of change requested in units system %s is the default-units result re-scaled" % us, "x0: float, x1: float, x2: float, x3: float", timeout=300)
    return "\n".join(L), conds


def run(rec):
    rec.assume("Python legs: the state is a duck-typed stand-in (get_at returns UnitValue(symbolic amount)); every state entry is a solver variable in (1e-3, 1e3) (strictly positive: z3 leaves 0^0 unspecified); k, D, volumes are the catalogue's concrete distinct values; floats are exact reals; agreement asserted to 1e-9 relative to the magnitude of the terms")
    for fn in ("kinetics.compute_reaction_rates/compute_diffusion_rates/_compute_dspeciesdt_grid/_compute_dspeciesdt_graph/compute_dspeciesdt/compute_dstatedt", "RDSystem.make_dxdtf"):
        rec.encoded(fn)
    text, conds = gen(rec.tier, rec.seed)
    mod = pysym.write_module("hgen_C01", text)
    pysym.run_auto(rec, mod, conds, default_timeout=300)
