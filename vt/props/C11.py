"""C11 The native engine is memory-safe on every valid script."""
from .. import catalogue
from ..safetylegs import sym_sequence
from ..cxx.engine import ast_info, program

OPTS = ("euler", "tauleap", "gillespie")


def scenarios(tier, seed):
    out = []
    base_calls = ["iterate", "iterate", "iterate", "sample", "progress", "fetch", "finalize", "finalize"]
    # whole-Iterate runs of the stochastic engines keep the state concrete (the symbolic-state step is the
    # compositional C07 leg, whose safety obligations are collected below); times are symbolic everywhere
    F = {"euler": ("state", "dt", "t_sample", "t_max"), "tauleap": ("dt", "t_sample", "t_max"), "gillespie": ("t_sample", "t_max")}
    for o in OPTS:
        for net, sd in (("AB_rev", ("grid", 2, 1, 1, 1)), ("ABC_bi", ("graph", "triangle")) if o == "euler" else ("AB_rev", ("graph", "pair"))):
            for pol in ("on_t_sample", "on_iteration", "on_interval", "no_sampling"):
                calls = base_calls if o != "gillespie" else ["iterate", "sample", "progress", "iterate", "fetch", "finalize", "finalize"]
                out.append(dict(net=net, space=sd, option=o, policy=pol, isp="none", n_req=2, calls=calls, fields=F[o], max_paths=400))
            if o == "gillespie":
                out.append(dict(net=net, space=sd, option=o, policy="on_t_sample", isp="none", n_req=1, calls=["iterate_n:2", "fetch", "iterate", "fetch", "finalize"], fields=F[o], max_paths=400))
                continue
            out.append(dict(net=net, space=sd, option=o, policy="on_t_sample", isp="none", n_req=1, calls=["iterate_n:3", "fetch", "iterate", "fetch", "finalize"], fields=F[o]))
            out.append(dict(net=net, space=sd, option=o, policy="on_t_sample", isp="none", n_req=3, calls=["run:1", "fetch", "finalize", "init", "iterate", "fetch"], unwind=4,
                            fields=("t_sample", "t_max"), max_paths=120))
    # a second, LARGER script set up in the same process (buffers / scratch storage sized by an earlier simulation)
    for o in OPTS:
        for (n1, s1, n2, s2) in (("none", ("grid", 1, 1, 1, 0), "ABC_bi", ("grid", 2, 2, 1, 4)), ("AB_rev", ("graph", "pair"), "ABC_bi", ("graph", "triangle")),
                                 ("AB_rev", ("grid", 2, 1, 1, 0), "order3_repeat", ("graph", "path_isolated")), ("none", ("graph", "pair"), "chstt_B", ("grid", 3, 1, 1, 1))):
            out.append(dict(net=n1, space=s1, option=o, policy="on_iteration", isp="none", n_req=1, calls=["iterate", "fetch", "finalize", "init2", "iterate", "iterate", "fetch", "finalize"],
                            other=(n2, s2, o), fields=("state",) if o == "euler" else (), max_paths=80, budget_s=90))
    # set-ups that are not preceded by finalize (an interrupted run), across the two space types: X finalized, Y set up and left, X set up again
    for o in ("euler", "gillespie"):
        for (n1, s1, n2, s2) in ((("AB_rev", ("grid", 2, 1, 1, 0), "AB_rev", ("graph", "pair"))), ("AB_rev", ("graph", "pair"), "none", ("grid", 2, 1, 1, 1))):
            out.append(dict(net=n1, space=s1, option=o, policy="on_iteration", isp="none", n_req=1, calls=["iterate", "finalize", "init2", "iterate", "init", "iterate", "fetch", "finalize"],
                            other=(n2, s2, o), fields=(), max_paths=80, budget_s=90))
            out.append(dict(net=n1, space=s1, option=o, policy="on_iteration", isp="none", n_req=1, calls=["iterate", "init2", "iterate", "init", "iterate", "fetch", "finalize", "finalize"],
                            other=(n2, s2, o), fields=(), max_paths=80, budget_s=90))
    # initial-state processing modes (Poisson / redistribution draw stubs; sub-molecule and empty cells are solver-chosen)
    for o in OPTS:
        for isp in ("auto", "Poisson", "redist"):
            sym = ("state",) if (isp == "Poisson" or (isp == "auto" and o == "euler")) else ()
            out.append(dict(net="none", space=("grid", 2, 1, 1, 0), option=o, policy="on_iteration", isp=isp, n_req=1, calls=["fetch", "finalize"],
                            unwind=3, max_paths=60, budget_s=60, fields=sym))
            out.append(dict(net="none", space=("graph", "pair"), option=o, policy="on_iteration", isp=isp, n_req=1, calls=["fetch", "finalize"],
                            unwind=3, max_paths=60, budget_s=60, fields=sym))
    # reactions of order 4 (the largest the catalogue has) and of order 3 with a repeated reactant: any table indexed by the order
    for o in OPTS:
        out.append(dict(net="order4", space=("grid", 2, 1, 1, 0), option=o, policy="on_iteration", isp="none", n_req=1, calls=["iterate", "fetch", "finalize"],
                        fields=("state",) if o == "euler" else ()))
        out.append(dict(net="order4", space=("graph", "pair"), option=o, policy="on_iteration", isp="none", n_req=1, calls=["iterate", "fetch", "finalize"],
                        fields=("state",) if o == "euler" else ()))
    # degenerate graphs
    for g in ("path_isolated", "selfloop", "parallel"):
        for o in OPTS:
            out.append(dict(net="AB_rev", space=("graph", g), option=o, policy="on_iteration", isp="none", n_req=1, calls=["iterate", "iterate", "fetch", "finalize"],
                            fields=("state",) if o == "euler" else ()))
    # grid shapes x boundary conditions (neighbour tables): concrete structure, symbolic state
    shapes = [(1, 1, 1), (2, 1, 1), (1, 2, 1), (1, 1, 2), (2, 2, 1), (3, 1, 1), (2, 2, 2)] if tier == "quick" else \
        [(w, h, d) for w in (1, 2, 3) for h in (1, 2, 3) for d in (1, 2, 3) if w * h * d <= 12]
    bcs = (0, 1, 4, 7) if tier == "quick" else range(8)
    k = 0
    for (w, h, d) in shapes:
        for bc in bcs:
            o = OPTS[k % 3]
            k += 1
            out.append(dict(net="none", space=("grid", w, h, d, bc), option=o, policy="on_iteration", isp="none", n_req=1, calls=["iterate", "fetch", "finalize"],
                            fields=("state",) if (w * h * d <= 4 and o == "euler") else ()))
    return out


def _work(rec, scen):
    scen = dict(scen)
    scen["calls"] = list(scen["calls"])
    n = sym_sequence(rec, scen)
    rec.vacuity_witness("sequence %s/%s/%s" % (scen["option"], scen.get("policy"), scen.get("isp")), n > 0, "%d paths" % n)


def run(rec):
    program()
    rec.extra["ast"] = ast_info()
    rec.assume("doubles are exact reals, ints are mathematical integers (index products are tiny; int overflow is outside the bounds)")
    rec.assume("ABI buffers have exactly the length the Python side allocates; every std::vector / buffer subscript, delete, dereference and read of a never-assigned value is an obligation under the path condition; library preconditions: poisson_distribution mean > 0")
    rec.assume("failed READ obligations are recorded and the read yields an unconstrained value (havoc); failed writes/deletes end the path")
    rec.assume("counterexamples are concretised from the solver model and replayed in a clang ASan+UBSan -D_GLIBCXX_ASSERTIONS build of the working tree's engine.cpp (vt/sandriver.py)")
    rec.bound("shapes", "<= 3 per axis / <= 12 cells, <= 3 species, call sequences of the scenarios listed in structures")
    for fn in ("every function of engine.cpp and the eight headers reachable from the exported C ABI (initialize_grid/graph, iterate, iterate_n, run, sample, get_progress, get_nsamples, get_trajectory, get_tsample, get_state, finalize)",):
        rec.encoded(fn)
    rec.parallel(_work, [_jsonable(s) for s in scenarios(rec.tier, rec.seed)])
    # the ABI sequences above respect the life cycle (nothing but finalize / a new set-up after a finalize); the Python wrapper must
    # not leave it on its own: reclaiming an engine object must not release the process-wide simulation (enumerated wrapper leg)
    rec.assume("wrapper leg: LibRDEngine objects used one after the other on a reference stand-in for the CDLL; reclaiming an object (del + gc.collect) must issue no native call")
    rec.encoded("LibRDEngine.__init__/setup/iterate/finalize and object reclamation (py, enumerated)")
    from .C10_py import drop_leg
    drop_leg(rec, "C11")


def _jsonable(s):
    def j(v):
        return [j(x) for x in v] if isinstance(v, (tuple, list)) else v
    return {k: j(v) for k, v in s.items()}
