def gsd_progress(rec):
    pass
