"""C14 Initial-state processing yields a valid molecular state with the right totals."""
import os
import subprocess
import sys
import time
from fractions import Fraction

import z3

from ..common import HarnessError, SRC, VERIF
from .. import catalogue
from ..glue import record_setup
from ..oracle import SymTab
from ..enginelegs import make_script, symbolize, state_term, volumes_of, _collect_safety
from ..stochlegs import _prove
from ..cxx.engine import ast_info, program, initialize, fetch_output, explore, is_sym, Vec, Interp, model_value
from ..cxx.interp import BreakEx, EndPath, CannotMerge


# ----------------------------------------------------------------------------- GSD, bounded unwinding
def gsd_bounded(rec, item):
    nc, ns, K, big = item
    desc = "GenerateStochasticDistribution cells=%d species=%d unwind=%d%s" % (nc, ns, K, " (amounts >= 100: normal branch)" if big else "")
    rec.structure(desc)
    X = [z3.Real("x_%d_%d" % (i, s)) for i in range(nc) for s in range(ns)]     # cell-major, as the function expects

    def body(I):
        for x in X:
            I.assume(z3.And(x >= 100, x <= 1000) if big else z3.And(x >= 0, x <= 50))
        I.check_lib_pre = False
        I.lazy_merge = False
        r = I.call_fn("GenerateStochasticDistribution", [Vec(list(X), "double", name="mesh_x"), nc, ns, 42])
        return r

    done = cut = 0
    for pr in explore(program(), body, max_paths=1500, budget_s=200, unwind=K):
        if pr.I is None:
            rec.oblig("GSD exploration", "inconclusive", pr.ended, structure=desc)
            continue
        I = pr.I
        _collect_safety(rec, I, desc)
        if pr.ended:
            cut += 1
            continue
        done += 1
        rec.paths += 1
        out = pr.value.elems
        for s in range(ns):
            tot = sum((I.toreal(out[i * ns + s]) for i in range(nc)), z3.RealVal(0))
            real = sum((X[i * ns + s] for i in range(nc)), z3.RealVal(0))
            _prove(rec, I, "species %d total == floor(real total)" % s, tot == z3.ToReal(z3.ToInt(real)), desc,
                   lambda m: rec.violation("gsd-total", "redistribution: species total differs from the floor of the real-valued total (%s)" % desc, {"structure": desc, "model": str(m)[:400]}))
        for i in range(nc):
            for s in range(ns):
                e = I.toreal(out[i * ns + s])
                _prove(rec, I, "entry (cell %d, species %d) is a non-negative integer; zero real amount stays zero" % (i, s),
                       z3.And(e >= 0, e == z3.ToReal(z3.ToInt(e)), z3.Implies(X[i * ns + s] == 0, e == 0)), desc,
                       lambda m: rec.violation("gsd-entry", "redistribution produced a negative / fractional entry or put molecules in an empty cell (%s)" % desc,
                                               {"structure": desc, "model": str(m)[:400]}))
    rec.extra["gsd_paths_cut_at_unwinding_bound"] = rec.extra.get("gsd_paths_cut_at_unwinding_bound", 0) + cut
    rec.vacuity_witness(desc, done > 0, "%d completed paths, %d cut at the unwinding bound" % (done, cut))


# ----------------------------------------------------------------------------- GSD, loop-body induction + progress
def _gsd_body_paths(nc, ns=1, big=False):
    """One iteration of the correction loop from an ARBITRARY loop-head state satisfying the invariant.
    Arrays are cell-major (index cell*ns + species), as the function receives them."""
    X = [z3.Real("x_%d" % i) for i in range(nc * ns)]
    Q = [z3.Int("q_%d" % i) for i in range(nc * ns)]
    dc, D = z3.Int("delta_count"), z3.Int("delta")
    results = []

    def hook(I, node, cond, body):
        if cond or not I.fn_stack or I.fn_stack[-1] != "GenerateStochasticDistribution":
            return False
        if I.ctx.local:
            raise CannotMerge()     # never run the harness inside a merge attempt
        fr = I.frame
        names = {I.P.by_id[k].get("name"): b for k, b in fr.items() if k in I.P.by_id}
        rm = names["rm_species"].get()
        if is_sym(rm):
            rm = I.truth(rm)
        sp0 = names["s"].get()
        entry = {"sto": list(names["mesh_x_sto"].get().elems), "dc": names["delta_count"].get(), "delta": names["delta"].get(),
                 "tot": names["tot_species"].get().elems[sp0 if not is_sym(sp0) else 0], "pc": list(I.pc), "defs": list(I.defs)}
        # arbitrary loop-head state
        names["mesh_x_sto"].set(Vec([z3.ToReal(q) for q in Q], "double", name="mesh_x_sto"))
        names["delta_count"].set(dc)
        names["delta"].set(D)
        sp = names["s"].get()
        if is_sym(sp):
            raise HarnessError("symbolic species loop variable")
        tot = names["tot_species"].get().elems[sp]
        for i in range(nc * ns):
            I.assume(z3.And(Q[i] >= 0, z3.Implies(Q[i] > 0, X[i] > 0)))
        I.assume(z3.And(dc >= 0, dc < D))
        sq = z3.ToReal(sum(Q[i * ns + sp] for i in range(nc)))
        I.assume((sq - I.toreal(tot) == z3.ToReal(D - dc)) if rm else (I.toreal(tot) - sq == z3.ToReal(D - dc)))
        n_ev = len(I.events)
        n_pc = len(I.pc)
        broke = False
        try:
            I._guarded(body.get("inner", [])) if body.get("kind") == "CompoundStmt" else I.stmt(body)
        except BreakEx:
            broke = True
        up = [e for e in I.events[n_ev:] if e[0] == "uprod"]
        results.append({"rm": rm, "broke": broke, "after": list(names["mesh_x_sto"].get().elems), "dc": names["delta_count"].get(),
                        "target": up[0][3] if up else None, "scale": up[0][2] if up else None, "tot": tot, "I": I, "n_pc": n_pc, "pc": list(I.pc), "defs": list(I.defs), "entry": entry, "sp": sp})
        raise EndPath("loop body executed once")

    def body(I):
        for x in X:
            I.assume(z3.And(x >= 100, x <= 1000) if big else z3.And(x >= 0, x <= 50))      # big: the normal-approximation branch of the draws
        I.check_lib_pre = False
        I.lazy_merge = False
        I.loop_hook = hook
        return I.call_fn("GenerateStochasticDistribution", [Vec(list(X), "double", name="mesh_x"), nc, ns, 42])

    _BYPASS[(nc, ns, big)] = bypass = []
    for pr in explore(program(), body, max_paths=400, budget_s=120, unwind=6):
        # a path on which the function RETURNS without the correction loop ever being entered (for any species): the loop
        # contract says nothing about it, so the function's postcondition is proved on it directly
        if pr.I is not None and not pr.ended and pr.value is not None:
            bypass.append((pr.I, list(pr.value.elems)))
    return X, Q, dc, D, results


_BYPASS = {}


def gsd_summary(rec, nc=2, ns=2):
    """The correction loop replaced by its CONTRACT (an arbitrary state satisfying invariant and exit condition) so that the
    exploration goes on to the NEXT species: the entry state of every species' loop - also of a species that comes after a
    corrected one - must satisfy the invariant with the direction the code chose (remove iff there is a surplus)."""
    desc = "GSD correction loops in sequence (loop = contract), cells=%d species=%d" % (nc, ns)
    rec.structure(desc)
    X = [z3.Real("x_%d" % i) for i in range(nc * ns)]
    entries = []

    def hook(I, node, cond, body):
        if cond or not I.fn_stack or I.fn_stack[-1] != "GenerateStochasticDistribution":
            return False
        if I.ctx.local:
            raise CannotMerge()
        fr = I.frame
        names = {I.P.by_id[k].get("name"): b for k, b in fr.items() if k in I.P.by_id}
        sp = names["s"].get()
        if is_sym(sp):
            raise HarnessError("symbolic species loop variable")
        rm = names["rm_species"].get()
        if is_sym(rm):
            rm = I.truth(rm)
        sto = list(names["mesh_x_sto"].get().elems)
        tot = names["tot_species"].get().elems[sp]
        entries.append({"sp": sp, "rm": rm, "sto": sto, "tot": tot, "delta": names["delta"].get(), "pc": list(I.pc), "defs": list(I.defs), "I": I, "k": getattr(I, "_gsd_k", 0)})
        I._gsd_k = getattr(I, "_gsd_k", 0) + 1
        # contract of the loop: species sp ends with non-negative integers, empty cells empty, total = the floored total; other species untouched
        new = list(sto)
        qs = []
        for i in range(nc):
            q = I.fresh("post_q", "int")
            I.assume(z3.And(q >= 0, z3.Implies(X[i * ns + sp] == 0, q == 0)))
            new[i * ns + sp] = z3.ToReal(q)
            qs.append(q)
        I.assume(z3.ToReal(sum(qs)) == I.toreal(tot))
        names["mesh_x_sto"].set(Vec(new, "double", name="mesh_x_sto"))
        return True            # the loop is done: execution continues behind it

    def body(I):
        for x in X:
            I.assume(z3.And(x >= 0, x <= 50))
        I.check_lib_pre = False
        I.lazy_merge = False
        I.loop_hook = hook
        return I.call_fn("GenerateStochasticDistribution", [Vec(list(X), "double", name="mesh_x"), nc, ns, 42])

    n = 0
    for pr in explore(program(), body, max_paths=300, budget_s=120, unwind=6):
        if pr.I is not None and not pr.ended:
            n += 1
    seen = set()
    checked = 0
    for e in entries:
        key = (e["sp"], e["rm"], len(e["pc"]), e["k"] > 0)
        if key in seen:
            continue
        seen.add(key)
        I = e["I"]
        sv = z3.Solver()
        sv.set("timeout", 30000)
        sv.add(*e["defs"])
        sv.add(*e["pc"])
        sto = [I.toreal(a) for a in e["sto"]]
        tot = I.toreal(e["tot"])
        dl = I.tosym(e["delta"])
        ssum = sum((sto[i * ns + e["sp"]] for i in range(nc)), z3.RealVal(0))
        inv = z3.And(dl > 0, (ssum - tot == z3.ToReal(dl)) if e["rm"] else (tot - ssum == z3.ToReal(dl)))
        t0 = time.time()
        sv.add(z3.Not(inv))
        res = sv.check()
        rec.query(str(res), time.time() - t0)
        checked += 1
        name = "species %d loop entered with the direction that matches its surplus / deficit (%s chosen; %s)" % (e["sp"], "remove" if e["rm"] else "add", "after an earlier species was corrected" if e["k"] > 0 else "first corrected species")
        rec.oblig(name, "holds" if res == z3.unsat else ("violated" if res == z3.sat else "inconclusive"), "" if res != z3.unknown else "solver unknown/timeout", time.time() - t0, desc)
        if res == z3.sat:
            rec.violation("gsd-direction", "the redistribution corrects a species in the wrong direction (removes although there is a deficit, or adds although there is a surplus) when an earlier species was corrected before it (%s)" % desc,
                          {"structure": desc, "model": str(sv.model())[:400]}, replayed=replay_gsd_validity()[0])
    rec.paths += n
    rec.vacuity_witness(desc, checked > 0 and any(e["k"] > 0 for e in entries), "%d completed paths, %d loop entries (%d after an earlier correction)" % (n, len(entries), sum(1 for e in entries if e["k"] > 0)))


def gsd_induction(rec, nc=2, ns=1, big=False):
    desc = "GSD correction loop, one iteration from an arbitrary invariant state, cells=%d species=%d%s" % (nc, ns, " (amounts in [100,1000]: normal branch)" if big else "")
    rec.structure(desc)
    X, Q, dc, D, results = _gsd_body_paths(nc, ns, big)
    n = 0
    for r in results:
        I = r["I"]
        feas, _ = I.check()
        if feas != "sat":
            continue
        n += 1
        after = [I.toreal(a) for a in r["after"]]
        dc2 = I.tosym(r["dc"])
        tot = I.toreal(r["tot"])
        sp = r["sp"]
        sq = sum((after[i * ns + sp] for i in range(nc)), z3.RealVal(0))
        inv = z3.And(*[z3.And(after[i] >= 0, z3.Or(after[i] == z3.ToReal(Q[i]), after[i] == z3.ToReal(Q[i]) + 1, after[i] == z3.ToReal(Q[i]) - 1)) for i in range(nc * ns)],
                     *[z3.Implies(after[i] > 0, X[i] > 0) for i in range(nc * ns)],
                     *[after[i * ns + o] == z3.ToReal(Q[i * ns + o]) for i in range(nc) for o in range(ns) if o != sp],
                     (sq - tot == z3.ToReal(D - dc2)) if r["rm"] else (tot - sq == z3.ToReal(D - dc2)),
                     dc2 >= dc, dc2 <= D)
        # decided without the path prefix (it only selects the correction direction, which the invariant states itself)
        sv = z3.Solver()
        sv.set("timeout", 40000)
        sub = []
        for c in r["defs"]:
            if not _mentions(c, "p!") and not _mentions(c, "nrm!"):
                sv.add(c)
        for c in r["pc"][r["n_pc"]:]:
            sv.add(z3.substitute(c, *sub))
        for name, claim in (("loop body re-establishes the invariant (entries non-negative integers, empty cells stay empty, total off by delta - delta_count)", inv),
                            ("the loop is left exactly when delta_count == delta (then the species total equals the floored total)", (dc2 == D) if r["broke"] else (dc2 != D))):
            t0 = time.time()
            sv.push()
            sv.add(z3.Not(z3.substitute(claim, *sub)))
            res = sv.check()
            sv.pop()
            rec.query(str(res), time.time() - t0)
            if res == z3.unsat:
                rec.oblig(name, "holds", "", time.time() - t0, desc)
            elif res == z3.sat:
                rec.oblig(name, "violated", "model found", time.time() - t0, desc)
                rp = replay_gsd_validity()
                rec.violation("gsd-invariant", "one iteration of the redistribution correction loop breaks its invariant / exit condition (%s); real build: %s" % (desc, rp[1]), {"structure": desc, "real": rp[1]}, replayed=rp[0])
            else:
                rec.oblig(name, "inconclusive", "solver unknown/timeout", time.time() - t0, desc)
    # paths that never enter the correction loop: the result must already satisfy the function's postcondition
    for (Ib, out) in _BYPASS.get((nc, ns, big), []):
        feas, _ = Ib.check()
        if feas != "sat":
            continue
        n += 1
        for sp in range(ns):
            tot = sum((Ib.toreal(out[i * ns + sp]) for i in range(nc)), z3.RealVal(0))
            real = sum((X[i * ns + sp] for i in range(nc)), z3.RealVal(0))
            ents = [Ib.toreal(out[i * ns + sp]) for i in range(nc)]
            claim = z3.And(tot == z3.ToReal(z3.ToInt(real)), *[z3.And(e >= 0, e == z3.ToReal(z3.ToInt(e))) for e in ents],
                           *[z3.Implies(X[i * ns + sp] == 0, ents[i] == 0) for i in range(nc)])
            _prove(rec, Ib, "no correction needed (loop never entered): species %d total == floor(real total), entries non-negative integers, empty cells empty" % sp, claim, desc,
                   lambda m: rec.violation("gsd-bypass", "redistribution returns without entering the correction loop although the result is not valid: a species total differs from the floor of its real total "
                                                         "(or an entry is negative / fractional / in an empty cell) (%s)" % desc, {"structure": desc, "model": str(m)[:400]},
                                           replayed=replay_gsd_validity()[0]))
    # initiation: the state in which the real code first reaches the loop satisfies the invariant
    seen = set()
    for r in results:
        e = r["entry"]
        key = (r["rm"], r["sp"], len(e["pc"]))
        if key in seen:
            continue
        seen.add(key)
        I = r["I"]
        sv = z3.Solver()
        sv.set("timeout", 30000)
        sv.add(*e["defs"])
        sv.add(*e["pc"])
        sto = [I.toreal(a) for a in e["sto"]]
        tot = I.toreal(e["tot"])
        dl, d0 = I.tosym(e["delta"]), I.tosym(e["dc"])
        ssum = sum((sto[i * ns + r["sp"]] for i in range(nc)), z3.RealVal(0))
        init = z3.And(*[a >= 0 for a in sto], *[a == z3.ToReal(z3.ToInt(a)) for a in sto], *[z3.Implies(sto[i] > 0, X[i] > 0) for i in range(nc * ns)], d0 == 0, dl > 0,
                      (ssum - tot == z3.ToReal(dl)) if r["rm"] else (tot - ssum == z3.ToReal(dl)))
        t0 = time.time()
        sv.add(z3.Not(init))
        res = sv.check()
        rec.query(str(res), time.time() - t0)
        name = "initiation: the loop is first reached in a state satisfying the invariant (%s)" % ("remove" if r["rm"] else "add")
        rec.oblig(name, "holds" if res == z3.unsat else ("violated" if res == z3.sat else "inconclusive"), "" if res != z3.unknown else "solver unknown/timeout (mixed integer/real)", time.time() - t0, desc)
        if res == z3.sat:
            rec.violation("gsd-initiation", "the redistribution correction loop starts in a state violating its invariant (%s)" % desc, {"structure": desc, "model": str(sv.model())[:400]})
    rec.paths += n
    rec.vacuity_witness(desc, n > 0, "%d feasible body paths" % n)
    return X, Q, dc, D, results


def gsd_progress(rec, nc=2, ns=1):
    """Termination with probability 1: from every invariant loop-head state SOME draw makes progress.
    The negation (exists state, for all draws: no progress) must be unsat; a model is a hang."""
    desc = "GSD correction loop progress, cells=%d species=%d" % (nc, ns)
    rec.structure(desc)
    t0 = time.time()
    X, Q, dc, D, results = _gsd_body_paths(nc, ns)
    for rm, spx in [(a, b) for a in (True, False) for b in range(ns)]:
        group = [r for r in results if r["rm"] == rm and r["sp"] == spx]
        if not group:
            rec.oblig("progress query (%s)" % ("remove" if rm else "add"), "inconclusive", "no body paths", 0, desc)
            continue
        tgt = z3.Real("target")
        prog = []
        base = None
        for r in group:
            I = r["I"]
            if r["target"] is None:
                continue
            sub = [(r["target"], tgt)]
            pcs = [z3.substitute(c, *sub) for c in r["pc"][r["n_pc"]:]]
            progressed = z3.substitute(z3.simplify(I.tosym(r["dc"]) == dc + 1), *sub)
            if not z3.is_false(progressed):
                prog.append(z3.And(progressed, *pcs))
            scale = I.toreal(r["scale"])
            base = (I, scale)
        I0, scale = base
        s = z3.Solver()
        s.set("timeout", 60000)
        # state constraints: everything the harness assumed except the range of the draw
        for c in group[-1]["defs"]:
            if not _mentions(c, "uprod"):
                s.add(c)
        for c in group[-1]["pc"][:group[-1]["n_pc"]]:     # the path prefix that led to this loop (which correction direction)
            s.add(c)
        rng = z3.And(z3.Implies(scale > 0, z3.And(tgt >= 0, tgt < scale)), z3.Implies(scale <= 0, tgt == 0))
        s.add(z3.ForAll([tgt], z3.Implies(rng, z3.Not(z3.Or(*prog) if prog else z3.BoolVal(False)))))
        r_ = s.check()
        secs = time.time() - t0
        rec.query(str(r_), secs)
        name = "from every invariant state some draw makes progress (%s a molecule of species %d)" % ("remove" if rm else "add", spx)
        if r_ == z3.unsat:
            rec.oblig(name, "holds", "", secs, desc)
        elif r_ == z3.sat:
            m = s.model()
            xs = [float(model_value(m, X[i * ns + spx])) for i in range(nc)]
            qs = [int(model_value(m, Q[i * ns + spx])) for i in range(nc)]
            rec.oblig(name, "violated", "stuck state x=%s sampled=%s" % (xs, qs), secs, desc)
            hung = replay_hang(xs)
            if not hung[0]:
                rp = replay_gsd_validity()
                hung = (rp[0], hung[1] + "; validity sweep of the real build: " + rp[1])
            rec.violation("gsd-hang", "the redistribution correction loop cannot make progress from real amounts %s with sampled counts %s: set-up never returns (%s)" % (xs, qs, hung[1]),
                          {"x": xs, "sampled": qs, "replay": hung[1]}, replayed=hung[0])
        else:
            rec.oblig(name, "inconclusive", "solver unknown", secs, desc)


_validity = {}


def replay_gsd_validity():
    """Real build: redistribution mode on sparse multi-species states over many seeds (child process with a time
    limit, since a defect here may also hang): every t=0 entry a non-negative integer, totals floored, empty cells empty."""
    if "r" in _validity:
        return _validity["r"]
    from ..common import scratch
    code = r'''
import sys, math
sys.path.insert(0, %r); sys.path.insert(0, %r)
from strengths import *
from vt.glue import real_engine
net = RDNetwork(species=[Species("A"), Species("B"), Species("C")], reactions=[])
bad = 0
for x in ([0.6, 0.0, 1.7, 0.4, 0.0, 0.9, 3.2, 0.0, 0.3, 0.0, 1.1, 0.2, 0.7, 2.4, 0.0, 0.5, 0.0, 0.8], [5.5, 0.2, 0.0, 0.4, 0.3, 0.1, 0.0, 0.0, 7.7],
          [150.5, 0.0, 320.25, 0.0, 410.75, 99.5, 1000.0, 120.125, 0.0]):      # amounts >= 100 with a fractional part: normal-approximation branch
    nc = len(x) // 3
    s = RDSystem(net, RDGridSpace(w=nc, h=1, d=1, cell_vol=1), state=x)
    for opt in ("tauleap", "gillespie"):
        for seed in range(1, 60):
            e = real_engine(opt)
            e.setup(RDScript(s, [0, 1], rng_seed=seed, init_state_processing="redist"))
            o = e.get_output(); e.finalize()
            x0 = [float(v) for v in o.data.value[:len(x)]]
            ok = all(v >= 0 and v == int(v) for v in x0) and all(v == 0 for v, r in zip(x0, x) if r == 0)
            for sp in range(3):
                ok = ok and sum(x0[sp * nc:(sp + 1) * nc]) == math.floor(sum(x[sp * nc:(sp + 1) * nc]))
            bad += (not ok)
print("BAD", bad)
''' % (SRC, VERIF)
    path = os.path.join(scratch(), "gsd_validity.py")
    open(path, "w").write(code)
    try:
        r = subprocess.run([sys.executable, path], capture_output=True, text=True, timeout=120, env=dict(os.environ, VERIF_SHARED_SCRATCH=scratch()))
        ok = "BAD 0" not in r.stdout
        txt = r.stdout.strip()[-100:] or r.stderr[-200:]
    except subprocess.TimeoutExpired:
        ok, txt = True, "real build did not return within 120 s"
    _validity["r"] = (ok, txt)
    return _validity["r"]


def _mentions(c, prefix):
    stack, seen = [c], set()
    while stack:
        t = stack.pop()
        if t.get_id() in seen:
            continue
        seen.add(t.get_id())
        if z3.is_const(t) and t.decl().kind() == z3.Z3_OP_UNINTERPRETED and t.decl().name().startswith(prefix):
            return True
        stack.extend(t.children())
    return False


HANG_SNIPPET = r'''
import sys
sys.path.insert(0, %r); sys.path.insert(0, %r)
from strengths import *
from vt.glue import real_engine
x = %r
net = RDNetwork(species=[Species("A")], reactions=[])
s = RDSystem(net, RDGridSpace(w=len(x), h=1, d=1, cell_vol=1), state=x)
e = real_engine("gillespie")
e.setup(RDScript(s, [0, 1], rng_seed=int(sys.argv[1]), init_state_processing="redist"))
e.finalize()
print("returned")
'''


def replay_hang(xs, seeds=range(1, 25), limit=6):
    """Runs set-up of the REAL build in child processes; a child that does not return within `limit` s is a hang."""
    from ..common import scratch
    cands = [xs, [0.3, 0.3], [1.0, 0.25]]
    for x in cands:
        x = [float(v) for v in x]
        code = HANG_SNIPPET % (SRC, VERIF, x)
        path = os.path.join(scratch(), "hang_%d.py" % abs(hash(tuple(x))))
        open(path, "w").write(code)
        env = dict(os.environ, VERIF_SHARED_SCRATCH=scratch())
        for seed in seeds:
            try:
                subprocess.run([sys.executable, path, str(seed)], capture_output=True, timeout=limit, env=env)
            except subprocess.TimeoutExpired:
                return True, "real build: set-up with state %s, seed %d did not return within %d s" % (x, seed, limit)
    return False, "no hang reproduced"


# ----------------------------------------------------------------------------- through the ABI: layout, Poisson, none
def abi_mode(rec, item):
    netname, sd, option, isp = item
    desc = "init-state processing %s/%s %s" % (option, isp, catalogue.describe(netname, sd))
    system = catalogue.build(netname, sd)
    rec.structure(desc)
    st = SymTab(concrete=volumes_of(system))
    X = state_term(system, st)
    script = make_script(system, option, 0.00390625, policy="on_iteration", isp=isp)
    kind, named, _ = record_setup(script, option)
    named_s = symbolize(kind, named, st, ("state",))
    ns, nc = len(system.network.species), system.space.size()
    stochastic = option in ("gillespie", "tauleap")
    eff = isp if isp != "auto" else ("redist" if stochastic else "none")

    def body(I):
        for c in st.positivity():
            I.assume(c)
        for s in range(ns):
            for i in range(nc):
                I.assume(X(s, i) <= 40)
        I.check_lib_pre = False
        if eff == "redist":
            # GenerateStochasticDistribution is replaced by its contract (proved separately by loop-body induction +
            # progress): the call's argument and the use of its result are what this leg decides
            def gsd_stub(I_, this, args):
                a0 = args[0].get() if hasattr(args[0], "get") else args[0]
                gsd_calls.append([a0.elems[:], args[1], args[2], args[3]])
                out = [I_.fresh("gsd_out") for _ in a0.elems]
                gsd_calls[-1].append(out)
                return Vec(list(out), "double", name="mesh_x_sto")
            I.stubs["GenerateStochasticDistribution"] = gsd_stub
        initialize(I, kind, named_s)
        return fetch_output(I, ns, nc), len(I.events)

    done = cut = 0
    gsd_calls = []
    for pr in explore(program(), body, max_paths=600, budget_s=150, unwind=2):
        if pr.I is None:
            rec.oblig("init exploration", "inconclusive", pr.ended, structure=desc)
            continue
        I = pr.I
        _collect_safety(rec, I, desc)
        if pr.ended:
            cut += 1
            continue
        done += 1
        rec.paths += 1
        (n, data, ts), _ = pr.value
        if n < 1:
            rec.oblig("a t=0 record exists (per-iteration sampling)", "violated", n, 0, desc)
            continue
        seeds = [e for e in I.events if e[0] == "rng_construct"]
        okseed = all((not is_sym(e[1])) and int(e[1]) == int(named["seed"]) for e in seeds)
        rec.oblig("every generator is constructed from the script's seed (reproducible)", "holds" if okseed else "violated", [str(e[1]) for e in seeds], 0, desc)
        if not okseed:
            rec.violation("init-seed", "a random generator of the set-up is not seeded with the script's seed (%s)" % desc, {"structure": desc})
        if eff == "none":
            for s in range(ns):
                for i in range(nc):
                    _prove(rec, I, "mode none: record 0 entry (%d,%d) is the input entry" % (s, i), I.toreal(data[s * nc + i]) == X(s, i), desc,
                           lambda m: rec.violation("init-none", "the 'none' mode does not pass the state through unchanged (%s)" % desc, {"structure": desc, "model": str(m)[:300]}))
            draws = [e for e in I.events if e[0] in ("poisson", "normal", "uniform")]
            rec.oblig("mode none makes no random draw", "holds" if not draws else "violated", len(draws), 0, desc)
        elif eff == "Poisson":
            pois = [(k, e) for k, e in enumerate(I.events) if e[0] == "poisson"]
            copies = [e for e in I.events if e[0] == "rng_copy"]
            rec.oblig("mode Poisson: the entries are drawn INDEPENDENTLY: every draw advances the one generator seeded with the script's seed (no draw is made from a copy of it)",
                      "holds" if not copies else "violated", [e[1] for e in copies][:3], 0, desc)
            if copies:
                rec.violation("init-poisson-generator-copied", "Poisson mode: draws are made from a COPY of the generator (%s): the original never advances, so every entry is drawn from the same "
                              "generator state and entries of equal mean are identical (%s)" % (copies[0][1], desc), {"structure": desc, "where": copies[0][1]}, replayed=replay_poisson_independent())
            for s in range(ns):
                for i in range(nc):
                    ent = I.toreal(data[s * nc + i])
                    # the entry must be a Poisson draw whose recorded mean is X(s,i) (0 when the mean is 0)
                    cands = [z3.And(I.toreal(e[1]) == X(s, i), ent == z3.If(X(s, i) > 0, z3.ToReal(e[2]), 0)) for k, e in pois]
                    # (an entry whose amount is 0 may also be set to 0 without any draw)
                    claim = z3.Or(*(cands + [z3.And(X(s, i) <= 0, ent == 0)]))
                    claim = z3.And(claim, ent >= 0, z3.Implies(X(s, i) == 0, ent == 0))
                    _prove(rec, I, "mode Poisson: record 0 entry (%d,%d) is a Poisson draw with mean = the input entry (zero stays zero)" % (s, i), claim, desc,
                           lambda m, s=s, i=i: rec.violation("init-poisson-layout", "Poisson mode: the t=0 entry of (species %d, cell %d) is not drawn with that entry's real amount as mean (%s)" % (s, i, desc),
                                                             {"structure": desc, "model": str(m)[:300]}, replayed=replay_poisson_layout()))
        else:  # redist
            if len(gsd_calls) < 1:
                rec.oblig("redistribution mode calls GenerateStochasticDistribution", "violated", "", 0, desc)
                rec.violation("init-redist-nocall", "redistribution mode does not redistribute (%s)" % desc, {"structure": desc})
                continue
            arg, a_nm, a_ns, a_seed, out = gsd_calls[-1]
            okargs = (a_nm == nc and a_ns == ns and not is_sym(a_seed) and int(a_seed) == int(named["seed"]))
            rec.oblig("GenerateStochasticDistribution gets (n_cells, n_species, the script's seed)", "holds" if okargs else "violated", [str(a_nm), str(a_ns), str(a_seed)], 0, desc)
            if not okargs:
                rec.violation("init-redist-args", "redistribution is called with the wrong sizes or seed (%s)" % desc, {"structure": desc})
            for s in range(ns):
                for i in range(nc):
                    _prove(rec, I, "redistribution input entry (cell %d, species %d) is the script's state entry (species-major -> cell-major)" % (i, s),
                           I.toreal(arg[i * ns + s]) == X(s, i), desc,
                           lambda m: rec.violation("init-redist-layout", "redistribution receives the state in the wrong layout (%s)" % desc, {"structure": desc, "model": str(m)[:300]}))
                    _prove(rec, I, "record 0 entry (species %d, cell %d) is the redistributed entry (cell-major -> species-major)" % (s, i),
                           I.toreal(data[s * nc + i]) == out[i * ns + s], desc,
                           lambda m: rec.violation("init-redist-layout", "the redistributed state is recorded in the wrong layout (%s)" % desc, {"structure": desc, "model": str(m)[:300]}))
        gsd_calls.clear()
    rec.vacuity_witness(desc, done > 0, "%d completed paths, %d cut" % (done, cut))


def replay_poisson_layout():
    """Real build: Poisson mode on 2-species states with very different magnitudes, on square (2 cells) and NON-square (3 cells /
    3 nodes) layouts, grid and graph: the t=0 record must be close to the input entry by entry (a transposition error swaps 7 and 3000)
    and zero entries must stay zero."""
    try:
        from ..enginelegs import real_run
        bad = 0
        for vals in ([3000.0, 7.0, 0.0, 50000.0, 400.0, 90000.0], [50.0, 0.0, 0.0, 20.0, 20.0, 20.0], [0.0, 30.0, 9.0, 0.0, 0.0, 12.0]):
            for sd in (("grid", 2, 1, 1, 0), ("grid", 3, 1, 1, 1), ("graph", "pair"), ("graph", "triangle")):
                system = catalogue.build("none", sd)
                n = 2 * system.space.size()
                st = vals[:n]
                system.state = list(st)
                runs = []
                for opt in ("tauleap", "gillespie"):
                    for seed in range(1, 4):
                        script = make_script(system, opt, 0.01, policy="on_iteration", isp="Poisson", seed=seed)
                        data, _ = real_run(script, opt, 0)
                        x0 = data[:n]
                        runs.append(x0)
                        if any((v == 0 and g != 0) or abs(g - v) > 6 * (v ** 0.5) + 1 for v, g in zip(st, x0)):
                            bad += 1
                # an entry with a mean of 5 or more that comes out 0 in every one of the 6 runs (chance below e^-30)
                if any(v >= 5 and all(r[k] == 0 for r in runs) for k, v in enumerate(st)):
                    bad += 1
        return bad > 0
    except Exception:
        return False


_RPI = []


def replay_poisson_independent():
    if not _RPI:
        _RPI.append(_replay_poisson_independent())
    return _RPI[0]


def _replay_poisson_independent():
    """Real build: Poisson mode on a state whose entries are all 50: with independent draws the chance that all 6 entries of the
    t=0 record coincide is below 1e-6 per seed; it must not happen for three seeds in a row on grid and graph."""
    try:
        from ..enginelegs import real_run
        for sd in (("grid", 3, 1, 1, 1), ("graph", "triangle")):
            system = catalogue.build("none", sd)
            n = 2 * system.space.size()
            system.state = [50.0] * n
            same = 0
            for seed in range(1, 4):
                script = make_script(system, "tauleap", 0.01, policy="on_iteration", isp="Poisson", seed=seed)
                data, _ = real_run(script, "tauleap", 0)
                if len(set(data[:n])) == 1:
                    same += 1
            if same == 3:
                return True
        return False
    except Exception:
        return False


def _work(rec, item):
    if item[0] == "gsd":
        gsd_bounded(rec, item[1:])
    elif item[0] == "induction":
        gsd_induction(rec, *item[1:])
    elif item[0] == "progress":
        gsd_progress(rec, *item[1:])
    elif item[0] == "summary":
        gsd_summary(rec, *item[1:])
    elif item[0] == "stale":
        from .C08 import no_stale_state
        no_stale_state(rec, item[1:])
    else:
        abi_mode(rec, item[1:])


def run(rec):
    program()
    rec.extra["ast"] = ast_info()
    rec.assume("doubles are exact reals; Poisson draws are arbitrary integers >= 0 (0 for mean 0), normal draws arbitrary reals, uniform draws arbitrary in [0,1); the generator is an opaque token carrying its seed")
    rec.assume("redistribution: (1) bounded unwinding of the correction loop (K iterations; longer corrections are cut and counted), (2) loop-body induction from an arbitrary invariant state, (3) progress query 'exists state, for all draws: no progress' must be unsat - termination with probability 1 then follows from independent draws")
    rec.assume("real amounts bounded by 50 (Poisson branch) or in [100,1000] (normal branch) in the GSD runs, by 40 through the ABI")
    rec.assume("through the ABI the redistribution function is replaced by its contract (fresh outputs); what is decided there is the layout of its argument / result and its seed; the contract itself (non-negative integers, floored totals, empty cells stay empty, termination) is the loop-body induction + progress query")
    rec.assume("reproducibility across set-ups in one process: two set-ups with initial-state processing are executed one after the other on the engine AST (real GenerateStochasticDistribution, concrete states >= 100); any read of process-lifetime storage written during the first set-up is reported")
    for fn in ("GenerateStochasticDistribution", "engineexport_initialize_grid/graph (init-state section)", "SpeciesFirstToMeshFirstArray", "MkVec", "RDScript.init_state_processing via LibRDEngine.setup"):
        rec.encoded(fn)
    q = rec.tier == "quick"
    items = [("induction", 2), ("progress", 2), ("induction", 3), ("progress", 3), ("induction", 2, 2), ("progress", 2, 2), ("induction", 3, 2), ("induction", 2, 1, True), ("summary", 2, 2), ("summary", 2, 3)]
    if not q:
        # bounded unwinding of the whole function (mixed integer/real queries: many stay inconclusive and are listed as such)
        items += [("induction", 4), ("progress", 4), ("gsd", 2, 1, 2, False), ("gsd", 3, 1, 2, False), ("gsd", 2, 1, 2, True)]
    for option in ("euler", "tauleap", "gillespie"):
        # 2 species on 2 cells is a SQUARE layout (species-major == cell-major up to a transposition that maps the array onto itself
        # only by luck): 3 cells / 3 nodes are in the quick tier too
        for sd in (("grid", 2, 1, 1, 0), ("graph", "pair"), ("grid", 3, 1, 1, 1), ("graph", "triangle")) + ((("grid", 2, 2, 1, 4),) if not q else ()):
            for isp in ("none", "auto", "Poisson", "redist"):
                items.append(("abi", "none", sd, option, isp))
    # 'for a given seed the processing is reproducible': the real redistribution code (entries >= 100: normal branch) run in a second
    # set-up of the same process must not read storage (function-local statics, globals) written by the first one
    items += [("stale", "gillespie", ("grid", 2, 1, 1, 0), "tauleap", ("grid", 2, 1, 1, 1), "redist"), ("stale", "tauleap", ("graph", "pair"), "gillespie", ("graph", "pair"), "auto")]
    rec.parallel(_work, items)
    # 'for a given seed the processing is reproducible': the seed given by the user (incl. 0 and 2^32-1) is the one the engine receives
    from . import C08_py
    from .. import pysym
    text = C08_py.HARNESS + '''

def h_seed_reaches_engine(k: int, opt: int) -> bool:
    """
    pre: 0 <= k <= 5 and 0 <= opt <= 2
    post: _
    """
    return seed_reaches_engine(k, opt)
'''
    mod = pysym.write_module("hgen_C14", text)
    pysym.run_auto(rec, mod, [{"fn": "h_seed_reaches_engine", "what": "the seed given in the script (0, 1, 12345, 2^31-1, 2^31, 2^32-1) is the seed handed to the engine for every engine kind (reproducibility for a given seed)",
                               "sig": "c14-seed", "structure": "seed", "viol": "the engine does not receive the seed the user gave (the initial-state processing is not reproducible for that seed)"}])
