"""C18 Unit and quantity text: print-parse round-trip, SI meaning, rejection."""
import itertools
import os
import random
import sys

from ..common import SRC, VERIF
from .. import pysym

ALPHA = ["m", "s", "M", "L", "u", "µ", ".", "/", "-", "+", "1", "2", " ", "x"]


def concrete_grammar(rec, tier, seed):
    """Every symbol x every exponent, separators, factor order: concrete table obligations (no magnitudes involved)."""
    for p in (SRC, VERIF):
        if p not in sys.path:
            sys.path.insert(0, p)
    from harness.c18lib import SYMBOLS, same_reading, reference
    rnd = random.Random(seed)
    bad = []
    n = 0
    for sym in SYMBOLS:
        for e in range(-9, 10):
            for text in (["%s%d" % (sym, e)] if e != 1 else [sym, sym + "1"]):
                n += 1
                if not same_reading(text):
                    bad.append(text)
    syms = sorted(SYMBOLS)
    pairs = []
    for _ in range(300 if tier == "quick" else 3000):
        k = rnd.choice((2, 3))
        fs = [(rnd.choice(syms), rnd.randint(-9, 9)) for _ in range(k)]
        seps = [rnd.choice("./") for _ in range(k - 1)]
        text = ""
        for j, (s_, e) in enumerate(fs):
            text += (seps[j - 1] if j else "") + s_ + ("" if e == 1 else str(e))
        # a/b == a.b-1 ; order irrelevant
        alt = ".".join(s_ + str(e if (j == 0 or seps[j - 1] == ".") else -e) for j, (s_, e) in enumerate(fs))
        rev = ".".join(reversed(alt.split(".")))
        for t in (text, alt, rev, text.replace("µ", "u")):
            n += 1
            if not same_reading(t):
                bad.append(t)
        r1, r2, r3 = reference(text), reference(alt), reference(rev)
        if (r1 is None) != (r2 is None) or (r1 is not None and (r1[0] != r2[0] or r1[0] != r3[0])):
            rec.error("reference recogniser is inconsistent on %r / %r" % (text, alt))
    doc_wrong = ["mol/µm. s", "mol//µm.s", "mol.µm-1.5.s-2", "mol.µm+1.s-2", "mol.µm 1.s-2", "m.", ".m", "m..s", "2m", "m--1", "m-", "m.mm", "kg", "µ", "mol/", "/s", "s-+1", "m 2"]
    for t in doc_wrong:
        n += 1
        if not same_reading(t):
            bad.append(t)
    rec.oblig("grammar semantics on %d concrete unit texts (47 symbols x exponents -9..9, 2-3 factor products, a/b == a.b-1, order, u-spelling, documented wrong forms)" % n,
              "holds" if not bad else "violated", bad[:10], 0, "concrete")
    for t in bad[:5]:
        rec.violation("c18-unit-text:%s" % t, "unit text %r is not read as the documented grammar prescribes (accepted although malformed, rejected although valid, or wrong dimension/scale)" % t, {"text": t})


def gen(tier, seed):
    L = ["from harness.c18lib import *", ""]
    conds = []

    def add(fn, sig, body, pre, what, args, timeout=None, viol=None):
        fn = "h_" + fn
        L.extend(["def %s(%s) -> bool:" % (fn, args), '    """'] + ["    " + p for p in pre] + ["    post: _", '    """', "    return " + body, ""])
        c = {"fn": fn, "what": what, "sig": sig, "structure": "unit text"}
        if timeout:
            c["timeout"] = timeout
        if viol:
            c["viol"] = viol
        conds.append(c)
    alpha = "".join(ALPHA)
    n_free = 2 if tier == "quick" else 3
    for k, c0 in enumerate(ALPHA):
        add("reject_%d" % k, "c18-reject-units", "same_reading(%r + t)" % c0, ["pre: len(t) <= %d and all(c in %r for c in t)" % (n_free, alpha)],
            "every string %r + (<= %d chars over %r) either raises or is read as the documented grammar prescribes" % (c0, n_free, alpha), "t: str", timeout=300 if tier == "quick" else 1500)
    # quantity text: number, blank(s), unit text
    for k, (num, sep) in enumerate([("1", " "), ("2.5", "  "), ("-3e2", " "), ("1", ""), ("x", " "), ("1 ", " ")]):
        qa = "ms ./1" if tier == "quick" else "ms. /-1x"
        add("reject_q_%d" % k, "c18-reject-quantity", "same_quantity_reading(%r + %r + t)" % (num, sep), ["pre: len(t) <= 3 and all(c in %r for c in t)" % (qa,), ],
            "quantity text %r%r + (<= 3 chars over %r) either raises or is read as value + documented unit grammar" % (num, sep, qa), "t: str", timeout=300 if tier == "quick" else 900,
            viol="quantity text read although malformed (e.g. embedded blanks) or misread")
    sysl = "ABCDEFGHIJK"
    for k, us in enumerate(sysl if tier != "quick" else "BDGJ"):
        for coord in range(3):
            d = ["0", "0", "0"]
            d[coord] = "e"
            other = (coord + 1) % 3
            d[other] = str((k % 3) - 1)
            add("print_parse_%s_%d" % (us, coord), "c18-print-parse", "print_parse(%r, (%s))" % (us, ", ".join(d)), ["pre: -9 <= e <= 9"],
                "printing a unit and parsing the text back gives the same exponents and the same base unit for every non-zero exponent (system %s, exponent %d symbolic in [-9,9])" % (us, coord),
                "e: int", timeout=120)
    add("print_parse_value", "c18-print-parse-value", "print_parse_value(a, 'B', (1, -2, 1))", ["pre: -1e9 < a < 1e9"],
        "printing a quantity and parsing it back gives a bit-identical value and the same unit (value realised at str(float))", "a: float", timeout=20)
    add("print_parse_hard", "c18-print-parse-value", "print_parse_hard(k, u)", ["pre: 0 <= k <= 19 and 0 <= u <= 3"],
        "printing a quantity and parsing it back gives a bit-identical value for 20 doubles that need up to 17 significant digits (sums like 0.1+0.2, sqrt 2, pi, subnormal, largest finite, 2^53+1, ...) in 4 unit systems",
        "k: int, u: int", viol="the text of a quantity does not identify its value: print-parse returns another double")
    conds[-1]["enumerate"] = True
    add("parse_fresh", "c18-parse-fresh", "parse_fresh(k, m)", ["pre: 0 <= k <= 9 and 0 <= m <= 2"],
        "reading a text is a pure function of the text: each call returns its own object, and editing a returned unit (exponents / base units) does not change what the same text reads as afterwards, through parse_units, Units(text), UnitValue(v, text) and parse_unitvalue (10 texts x 3 edits)",
        "k: int, m: int", viol="the reading of a unit text depends on what was done to the result of an earlier reading of the same text")
    conds[-1]["enumerate"] = True
    return "\n".join(L), conds


def run(rec):
    rec.assume("strings are explored by exhaustive realisation over the stated alphabet and length bound (CrossHair path enumeration; 'Confirmed' only when the path tree is exhausted); longer strings and other characters are outside the claim")
    rec.assume("the reference recogniser (harness/c18lib.py) is written from the documentation: symbols, '.' and '/' separators, unsigned positive or negative integer exponents, u-for-micro, no blanks inside, at most one unit per base kind")
    rec.assume("bit-identity of a value's text round trip relies on CPython's repr/float (trusted); the value is realised")
    for fn in ("parse_units", "parse_unitvalue", "Units.__str__", "UnitValue.__str__", "Units.__eq__"):
        rec.encoded(fn)
    concrete_grammar(rec, rec.tier, rec.seed)
    text, conds = gen(rec.tier, rec.seed)
    mod = pysym.write_module("hgen_C18", text)
    pysym.run_auto(rec, mod, [c for c in conds if c.get("enumerate")])
    pysym.run_conditions(rec, mod, [c for c in conds if not c.get("enumerate")], default_timeout=120)
