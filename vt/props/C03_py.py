"""py-sym legs of C03: kinetics functions, make_dxdtf and apply_reaction honour the flag of that very (species, cell)."""
from .. import pysym


def gen(tier, seed):
    L = ["from harness.c01lib import *", ""]
    conds = []

    def add(fn, sig, body, pre, what, args, timeout=None, viol=None):
        fn = "h_" + fn
        L.extend(["def %s(%s) -> bool:" % (fn, args), '    """'] + ["    " + p for p in pre] + ["    post: _", '    """', "    return " + body, ""])
        c = {"fn": fn, "what": what, "sig": sig, "structure": "chemostats"}
        if timeout:
            c["timeout"] = timeout
        if viol:
            c["viol"] = viol
        conds.append(c)
    maps = {"ab_grid2": [(0, 0, 1, 0), (0, 1, 0, 0), (1, 0, 0, 1)], "abc_pair": [(0, 0, 1, 0, 0, 1), (0, 1, 0, 0, 1, 0)]}
    for name, ns, nc in (("ab_grid2", 2, 2), ("abc_pair", 3, 2)):
        n = ns * nc
        args = ", ".join("x%d: float" % k for k in range(n))
        pre = " and ".join("0.001 < x%d < 1000" % k for k in range(n))
        xs = "(%s)" % ", ".join("x%d" % k for k in range(n))
        for m, chem in enumerate(maps[name] if tier != "quick" else maps[name][:2]):
            for s in range(ns):
                for i in range(nc):
                    if tier == "quick" and name == "abc_pair" and (s + i) % 2:
                        continue
                    add("chem_%s_%d_%d_%d" % (name, m, s, i), "c03-kinetics-flag", "dspecies_ok(%r, %d, %d, %s, %r, True)" % (name, s, i, xs, chem), ["pre: " + pre],
                        "with chemostat map %s: compute_dspeciesdt(species %d, cell %d) is exactly 0 if that very entry is flagged, else the law with flagged entries still acting as reactants / diffusion partners (%s)" % (chem, s, i, name),
                        args, timeout=150 if tier == "quick" else 600, viol="the kinetics functions consult the wrong chemostat flag (not the one of that species in that cell)")
    for name, n in (("ab_grid321", 12), ("ab_grid232", 24), ("abc_tri", 9)):
        add("flagpos_%s" % name, "c03-kinetics-flag-position", "flag_position_ok(%r, k, extra)" % name, ["pre: 0 <= k < %d and 0 <= extra <= 1" % n],
            "the flag consulted by the kinetics functions is the one of that very species in that very cell on spaces with two / three extended axes (%s): with entry k flagged (alone, or with every third other entry) the derivative "
            "of the state is the unflagged derivative zeroed at exactly the flagged entries - compute_dstatedt and compute_dspeciesdt, cell by index and by coordinates" % name, "k: int, extra: int",
            viol="the kinetics functions read the chemostat flag of ANOTHER cell (or species): a flagged entry has a non-zero derivative or a free entry a spurious zero")
    for chem in ((0, 1, 0), (1, 0, 1), (0, 0, 0)):
        add("dxdtf_%s" % "".join(map(str, chem)), "c03-dxdtf-flag", "dxdtf_ok('abc1', (x0, x1, x2), %r)" % (chem,), ["pre: 0.001 < x0 < 1000 and 0.001 < x1 < 1000 and 0.001 < x2 < 1000"],
            "make_dxdtf: flagged species have zero derivative, the others the law (map %s)" % (chem,), "x0: float, x1: float, x2: float", timeout=300)
    add("apply_grid", "c03-apply-reaction", "apply_reaction_ok('ab_grid2', ((c0, c1, c2, c3)), 0, cell, n)", ["pre: 0 <= c0 <= 1 and 0 <= c1 <= 1 and 0 <= c2 <= 1 and 0 <= c3 <= 1 and 0 <= cell <= 1 and -2 <= n <= 3"],
        "apply_reaction changes exactly the unflagged entries of that cell by n x net stoichiometry, for every flag map (grid)", "c0: int, c1: int, c2: int, c3: int, cell: int, n: int")
    add("apply_graph", "c03-apply-reaction", "apply_reaction_ok('abc_pair', ((c0, c1, c2, c3, c4, c5)), 0, cell, n)",
        ["pre: 0 <= c0 <= 1 and 0 <= c1 <= 1 and 0 <= c2 <= 1 and 0 <= c3 <= 1 and 0 <= c4 <= 1 and 0 <= c5 <= 1 and 0 <= cell <= 1 and -1 <= n <= 2"],
        "apply_reaction with every flag map (graph)", "c0: int, c1: int, c2: int, c3: int, c4: int, c5: int, cell: int, n: int")
    return "\n".join(L), conds


def run(rec):
    rec.assume("Python legs: duck-typed symbolic state (see C01); chemostat maps from a catalogue that flags species >= 1 only, cell >= 1 only and mixed entries; apply_reaction is enumerated over EVERY flag map")
    for fn in ("kinetics.compute_dspeciesdt (apply_chemostats)", "RDSystem.make_dxdtf", "RDSystem.apply_reaction"):
        rec.encoded(fn)
    text, conds = gen(rec.tier, rec.seed)
    mod = pysym.write_module("hgen_C03", text)
    pysym.run_auto(rec, mod, conds, default_timeout=300)
