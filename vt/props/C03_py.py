"""py-sym legs of C03 (filled in with the CrossHair harnesses)."""


def run(rec):
    pass
