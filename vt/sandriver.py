"""Replay of memory-safety / lifecycle counterexamples against the REAL engine sources:
a generic C++ driver (includes engine.cpp of the working tree) built with
clang++ -fsanitize=address,undefined -D_GLIBCXX_ASSERTIONS, fed with a concrete scenario file."""
import os
import subprocess

from .common import ENGINE_SRC, HarnessError, scratch
from .glue import GRID_NAMES, GRAPH_NAMES

DRIVER = r'''
#include "engine.cpp"
#include <fstream>
#include <cstdio>
static std::ifstream f;
static std::vector<int> rdi(){int n; f>>n; std::vector<int> v(n); for(auto&x:v) f>>x; return v;}
static std::vector<double> rdd(){int n; f>>n; std::vector<double> v(n); for(auto&x:v){std::string s; f>>s; x=strtod(s.c_str(),0);} return v;}
static double rd1(){std::string s; f>>s; return strtod(s.c_str(),0);}
// exact-size heap copies so that ASan sees any access past the Python-side length
template<typename T> static T* heap(const std::vector<T>&v){T*p=new T[v.size()]; for(size_t i=0;i<v.size();i++)p[i]=v[i]; return p;}
struct Scn { std::string kind; int a[6]; int ne_edges; std::vector<int> ei,ej,chstt,env,sub,sto; std::vector<double> esfc,edst,state,vol,k,D,ts;
  double vol1,itv,tmax,dt; int seed; std::string bcx,bcy,bcz,policy,isp,option; int ns,nc; };
static Scn S;
static int do_init(){
  if(S.kind=="grid"){
    int*c=heap(S.chstt),*e=heap(S.env),*su=heap(S.sub),*st=heap(S.sto); double*x=heap(S.state),*k=heap(S.k),*D=heap(S.D),*ts=heap(S.ts);
    int r=engineexport_initialize_grid(S.a[0],S.a[1],S.a[2],S.a[3],S.a[4],S.a[5],x,c,e,S.vol1,k,su,st,D,S.bcx.c_str(),S.bcy.c_str(),S.bcz.c_str(),(int)S.ts.size(),ts,
      S.policy.c_str(),S.itv,S.tmax,S.dt,S.seed,S.isp.c_str(),S.option.c_str());
    delete[]c;delete[]e;delete[]su;delete[]st;delete[]x;delete[]k;delete[]D;delete[]ts; return r;
  } else {
    int*ei=heap(S.ei),*ej=heap(S.ej),*c=heap(S.chstt),*e=heap(S.env),*su=heap(S.sub),*st=heap(S.sto);
    double*sf=heap(S.esfc),*ds=heap(S.edst),*x=heap(S.state),*v=heap(S.vol),*k=heap(S.k),*D=heap(S.D),*ts=heap(S.ts);
    int r=engineexport_initialize_graph(S.a[0],S.a[1],S.a[2],S.a[3],S.ne_edges,ei,ej,sf,ds,x,c,e,v,k,su,st,D,(int)S.ts.size(),ts,
      S.policy.c_str(),S.itv,S.tmax,S.dt,S.seed,S.isp.c_str(),S.option.c_str());
    delete[]ei;delete[]ej;delete[]c;delete[]e;delete[]su;delete[]st;delete[]sf;delete[]ds;delete[]x;delete[]v;delete[]k;delete[]D;delete[]ts; return r;
  }
}
static void read_block(){
  f>>S.kind;
  if(S.kind=="grid"){ for(int i=0;i<6;i++) f>>S.a[i]; S.ns=S.a[3]; S.nc=S.a[0]*S.a[1]*S.a[2];
    S.state=rdd(); S.chstt=rdi(); S.env=rdi(); S.vol1=rd1(); S.k=rdd(); S.sub=rdi(); S.sto=rdi(); S.D=rdd(); f>>S.bcx>>S.bcy>>S.bcz; }
  else { for(int i=0;i<4;i++) f>>S.a[i]; f>>S.ne_edges; S.ns=S.a[1]; S.nc=S.a[0];
    S.ei=rdi(); S.ej=rdi(); S.esfc=rdd(); S.edst=rdd(); S.state=rdd(); S.chstt=rdi(); S.env=rdi(); S.vol=rdd(); S.k=rdd(); S.sub=rdi(); S.sto=rdi(); S.D=rdd(); }
  S.ts=rdd(); f>>S.policy; S.itv=rd1(); S.tmax=rd1(); S.dt=rd1(); f>>S.seed>>S.isp>>S.option;
}
int main(int argc,char**argv){
  f.open(argv[1]); read_block();
  std::string c;
  while(f>>c){
    if(c=="next") read_block();   // a different script follows (used with a later "init")
    else if(c=="init") printf("init %d\n",do_init());
    else if(c=="iterate") printf("iterate %d\n",engineexport_iterate());
    else if(c=="iterate_n"){int n; f>>n; printf("iterate_n %d\n",engineexport_iterate_n(n));}
    else if(c=="run"){int n; f>>n; printf("run %d\n",engineexport_run(n));}
    else if(c=="sample") engineexport_sample();
    else if(c=="progress") printf("progress %.17g\n",engineexport_get_progress());
    else if(c=="finalize") engineexport_finalize();
    else if(c=="fetch"){ int n=engineexport_get_nsamples(); double*d=new double[(size_t)n*S.ns*S.nc]; double*t=new double[n]; double*x=new double[(size_t)S.ns*S.nc];
      engineexport_get_trajectory(d); engineexport_get_tsample(t); engineexport_get_state(x);
      printf("fetch %d",n); for(int i=0;i<n;i++) printf(" %.17g",t[i]); printf(" |"); for(int i=0;i<n*S.ns*S.nc;i++) printf(" %.17g",d[i]); printf("\n"); delete[]d; delete[]t; delete[]x; }
    fflush(stdout);
  }
  return 0;
}
'''

_driver = None


def build_driver():
    global _driver
    if _driver:
        return _driver
    wd = scratch()
    src = os.path.join(wd, "san_driver.cpp")
    out = os.path.join(wd, "san_driver")
    from .common import flock
    with flock("san_driver"):
        if not os.path.exists(out):
            with open(src, "w") as fh:
                fh.write(DRIVER)
            cmd = ["clang++-14", "-std=c++11", "-g", "-O1", "-fsanitize=address,undefined", "-fno-sanitize-recover=all", "-fno-omit-frame-pointer",
                   "-D_GLIBCXX_ASSERTIONS", "-I" + ENGINE_SRC, src, "-o", out + ".tmp"]
            r = subprocess.run(cmd, capture_output=True, text=True)
            if r.returncode != 0:
                raise HarnessError("sanitizer driver build failed: " + r.stderr[-1500:])
            os.replace(out + ".tmp", out)
    _driver = out
    return out


def _fmt_d(x):
    return repr(float(x))


def scenario_text(kind, named, calls):
    """calls: strings, or ("next", kind2, named2) to switch to another script before a later "init"."""
    t = [_block(kind, named)]
    line = []
    for c in calls:
        if isinstance(c, tuple):
            t.append(" ".join(line) + " next")
            line = []
            t.append(_block(c[1], c[2]))
        else:
            line.append(c)
    t.append(" ".join(line))
    return "\n".join(t) + "\n"


def _block(kind, named):
    n = named
    t = []

    def arr_i(v):
        return "%d %s" % (len(v), " ".join(str(int(x)) for x in v))

    def arr_d(v):
        return "%d %s" % (len(v), " ".join(_fmt_d(x) for x in v))
    if kind == "grid":
        t.append("grid %d %d %d %d %d %d" % tuple(int(n[k]) for k in ("w", "h", "d", "n_species", "n_reactions", "n_env")))
        t += [arr_d(n["state"]), arr_i(n["chstt"]), arr_i(n["env"]), _fmt_d(n["vol"]), arr_d(n["k"]), arr_i(n["sub"]), arr_i(n["sto"]), arr_d(n["D"]),
              "%s %s %s" % (n["bcx"], n["bcy"], n["bcz"])]
    else:
        t.append("graph %d %d %d %d %d" % tuple(int(n[k]) for k in ("n_nodes", "n_species", "n_reactions", "n_env", "n_edges")))
        t += [arr_i(n["edge_i"]), arr_i(n["edge_j"]), arr_d(n["edge_sfc"]), arr_d(n["edge_dst"]), arr_d(n["state"]), arr_i(n["chstt"]), arr_i(n["env"]),
              arr_d(n["vol"]), arr_d(n["k"]), arr_i(n["sub"]), arr_i(n["sto"]), arr_d(n["D"])]
    t += [arr_d(n["t_sample"]), n["policy"], _fmt_d(n["interval"]), _fmt_d(n["t_max"]), _fmt_d(n["dt"]), "%d %s %s" % (int(n["seed"]), n["isp"], n["option"])]
    return "\n".join(t)


def run_scenario(kind, named, calls, timeout_s=20):
    """Returns dict(status='ok'|'error'|'hang', report=..., stdout=...)."""
    drv = build_driver()
    path = os.path.join(scratch(), "scn_%d_%d.txt" % (os.getpid(), abs(hash((kind, repr(sorted(named.items(), key=str)), repr(calls)))) % 10 ** 9))
    with open(path, "w") as fh:
        fh.write(scenario_text(kind, named, calls))
    env = dict(os.environ, ASAN_OPTIONS="detect_leaks=0:abort_on_error=0", UBSAN_OPTIONS="print_stacktrace=1")
    try:
        r = subprocess.run([drv, path], capture_output=True, text=True, timeout=timeout_s, env=env)
    except subprocess.TimeoutExpired:
        return {"status": "hang", "report": "no return within %ds" % timeout_s, "stdout": "", "scenario": open(path).read()}
    bad = r.returncode != 0 or "AddressSanitizer" in r.stderr or "runtime error" in r.stderr or "Assertion" in r.stderr
    rep = ""
    if bad:
        lines = [l for l in r.stderr.splitlines() if ("ERROR" in l or "runtime error" in l or "Assertion" in l or "engine.cpp" in l or ".hpp" in l)]
        rep = "\n".join(lines[:12])[:1500] or ("exit code %d" % r.returncode)
    return {"status": "error" if bad else "ok", "report": rep, "stdout": r.stdout, "scenario": open(path).read()}
