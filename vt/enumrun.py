"""Exhaustive evaluation of a harness function over a finite integer box (plain CPython, no solver):
python3-vt -m vt.enumrun <module> <function> <box-json> <pre-json>
Used where every parameter is a small structural choice (flags, sizes, index-map entries): there is
nothing for a solver to decide, and CrossHair's tracing makes each path ~1000x slower than the call."""
import importlib
import itertools
import json
import sys
import time


def main():
    mod, fn, box, pres = sys.argv[1], sys.argv[2], json.loads(sys.argv[3]), json.loads(sys.argv[4])
    budget = float(sys.argv[5]) if len(sys.argv) > 5 else 1e9
    m = importlib.import_module(mod)
    f = getattr(m, fn)
    names = list(box)
    n = 0
    t0 = time.time()
    for point in itertools.product(*[range(box[k][0], box[k][1] + 1) for k in names]):
        env = dict(zip(names, point))
        if not all(eval(p, {}, env) for p in pres):
            continue
        n += 1
        try:
            r = f(**env)
        except Exception as e:  # noqa
            print("FAIL %s %s: %s" % (json.dumps(env), type(e).__name__, str(e)[:200]))
            return
        if not r:
            print("FAIL %s returned False" % json.dumps(env))
            return
        if time.time() - t0 > budget:
            print("BUDGET %d" % n)
            return
    print("OK %d" % n)


if __name__ == "__main__":
    main()
