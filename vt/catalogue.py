"""Bounded catalogue of small structures (networks x spaces), built with the real strengths API.

Every numeric field holds a *unique dyadic tag value* (exactly representable in binary64), so that
the recorded ABI arrays can be traced back to the physical quantity they came from (glue.py) and
so that concrete validation runs are exact in rational arithmetic.  Volumes are perfect cubes so
that cube roots are exact when they stay concrete.
"""
import random
import sys

from .common import SRC

if SRC not in sys.path:
    sys.path.insert(0, SRC)


class Tags:
    """Hands out pairwise distinct positive dyadic rationals."""

    def __init__(self, start=17):
        self.n = start

    def __call__(self):
        self.n += 1
        return self.n / 16.0


def networks(tags, names=None):
    from strengths import RDNetwork, Species, Reaction
    t = tags
    envs = ["e0", "e1"]
    out = {}

    def sp(label, chstt=False, Dz=False):
        # species B relies on the 'default' fallback of its per-environment dictionary for e1 (A lists every environment, C is a scalar)
        D = {"e0": t(), ("default" if label == "B" else "e1"): (0 if Dz else t())} if label != "C" else t()
        return Species(label, D=D, density={"e0": t(), "default": t()}, chstt=chstt)

    out["AB_rev"] = lambda: RDNetwork(
        species=[sp("A", Dz=True), sp("B")],
        reactions=[Reaction("A -> B", kf={"e0": t(), "e1": t()}, kr={"e0": t(), "default": t()})], environments=envs)
    out["ABC_bi"] = lambda: RDNetwork(
        species=[sp("A"), sp("B", Dz=True), sp("C")],
        reactions=[Reaction("A + B -> C", kf={"e0": t()}, kr=t())], environments=envs)
    out["dimer_source"] = lambda: RDNetwork(
        species=[sp("A")],
        reactions=[Reaction("2 A -> ", kf=t()), Reaction(" -> A", kf={"e1": t()})], environments=envs)
    out["order3_repeat"] = lambda: RDNetwork(
        species=[sp("A"), sp("B"), sp("C")],
        reactions=[Reaction("A + 2 B -> 3 C + A", kf=t(), kr=0)], environments=envs)
    out["order4"] = lambda: RDNetwork(
        species=[sp("A"), sp("B"), sp("C")],
        reactions=[Reaction("2 A + 2 B -> C", kf={"e0": t(), "e1": t()})], environments=envs)
    # one species with coefficient 4 on the consuming side of each direction (x^4, and 4 molecules produced / consumed per event)
    out["quad"] = lambda: RDNetwork(
        species=[sp("A"), sp("B")],
        reactions=[Reaction("4 A -> B", kf=t(), kr={"e0": t(), "e1": t()})], environments=envs)
    out["none"] = lambda: RDNetwork(species=[sp("A"), sp("B", Dz=True)], reactions=[], environments=envs)
    out["chstt_B"] = lambda: RDNetwork(
        species=[sp("A"), sp("B", chstt={"e1": True}), sp("C", chstt=False)],
        reactions=[Reaction("A + B -> C", kf=t(), kr=t())], environments=envs)
    return {k: v for k, v in out.items() if names is None or k in names}


BCS = [{}, {"x": "periodical"}, {"y": "periodical"}, {"z": "periodical"}, {"x": "periodical", "y": "periodical"},
       {"x": "periodical", "z": "periodical"}, {"y": "periodical", "z": "periodical"},
       {"x": "periodical", "y": "periodical", "z": "periodical"}]


def grid(w, h, d, env=None, bc=None, vol=8):
    from strengths import RDGridSpace
    n = w * h * d
    if env is None:
        env = [(i * 7 + 1) % 3 % 2 for i in range(n)]
    return RDGridSpace(w=w, h=h, d=d, cell_env=env, cell_vol=vol, boundary_conditions=dict(bc or {}))


def graph(kind, tags):
    from strengths import RDGraphSpace
    from strengths.rdgraphspace import RDGraphSpaceNode as N, RDGraphSpaceEdge as E
    t = tags
    if kind == "pair":
        return RDGraphSpace(nodes=[N(8, 0), N(27, 1)], edges=[E(0, 1, t(), t())])
    if kind == "triangle":
        return RDGraphSpace(nodes=[N(8, 0), N(1, 1), N(27, 0)], edges=[E(0, 1, t(), t()), E(2, 1, t(), t()), E(0, 2, t(), t())])
    if kind == "path_isolated":
        return RDGraphSpace(nodes=[N(1, 1), N(8, 0), N(0.125, 1), N(27, 0)], edges=[E(0, 1, t(), t()), E(1, 2, t(), t())])
    if kind == "selfloop":
        return RDGraphSpace(nodes=[N(8, 0), N(1, 1)], edges=[E(0, 0, t(), t()), E(0, 1, t(), t())])
    if kind == "parallel":
        return RDGraphSpace(nodes=[N(8, 1), N(27, 0)], edges=[E(0, 1, t(), t()), E(1, 0, t(), t())])
    raise ValueError(kind)


def build(netname, spacedesc, tags=None, chem=None):
    """spacedesc: ('grid', w,h,d, bc_index[, env]) or ('graph', kind). Returns RDSystem with tag state."""
    from strengths import RDSystem
    tags = tags or Tags()
    net = networks(tags, [netname])[netname]()
    if spacedesc[0] == "grid":
        _, w, h, d, bci = spacedesc[:5]
        env = spacedesc[5] if len(spacedesc) > 5 else None
        space = grid(w, h, d, env, BCS[bci])
    else:
        space = graph(spacedesc[1], tags)
    n = space.size() * len(net.species)
    state = [tags() for _ in range(n)]
    s = RDSystem(net, space, state=state)
    if chem is not None:
        s.chemostats = [int(c) for c in chem]
    return s


QUICK_GRIDS = [("grid", 1, 1, 1, 0), ("grid", 2, 1, 1, 0), ("grid", 2, 1, 1, 1), ("grid", 1, 2, 1, 2), ("grid", 3, 1, 1, 1),
               ("grid", 2, 2, 1, 4), ("grid", 1, 1, 3, 3)]      # the last one: only the z axis extended and periodic (x, y reflecting)
QUICK_GRAPHS = [("graph", "pair"), ("graph", "triangle"), ("graph", "path_isolated")]
MULTI_GRAPHS = [("graph", "selfloop"), ("graph", "parallel")]
THOROUGH_GRIDS = QUICK_GRIDS + [("grid", 1, 1, 2, 3), ("grid", 2, 2, 2, 7), ("grid", 2, 2, 2, 0), ("grid", 3, 2, 1, 5),
                                ("grid", 1, 3, 1, 2), ("grid", 2, 1, 2, 6), ("grid", 1, 1, 1, 7), ("grid", 4, 1, 1, 1)]
NETS_QUICK = ["AB_rev", "ABC_bi", "dimer_source", "order3_repeat", "none"]
NETS_ALL = NETS_QUICK + ["order4", "chstt_B", "quad"]


def pairs(tier, seed=0, engine_multigraph=False):
    """(network name, space descriptor) pairs of the tier's catalogue."""
    rnd = random.Random(seed)
    out = []
    if tier == "quick":
        spaces = QUICK_GRIDS + QUICK_GRAPHS
        for k, netname in enumerate(NETS_QUICK):
            # every network on two spaces, every space at least once
            out.append((netname, spaces[k % len(spaces)]))
            out.append((netname, spaces[(k + 5) % len(spaces)]))
        out.append(("order4", ("grid", 2, 1, 1, 0)))
        out.append(("quad", ("grid", 2, 1, 1, 1)))
        out.append(("quad", ("graph", "pair")))
        out.append(("chstt_B", ("grid", 2, 1, 1, 1)))
        out.append(("chstt_B", ("graph", "pair")))
        # rate constants that are zero in ONE environment only, on a graph where a node of that environment comes AFTER an active one
        out.append(("ABC_bi", ("graph", "triangle")))
        out.append(("dimer_source", ("graph", "triangle")))
    else:
        spaces = THOROUGH_GRIDS + QUICK_GRAPHS
        for netname in NETS_ALL:
            for sp in spaces:
                out.append((netname, sp))
        for _ in range(6):
            w, h, d = rnd.choice([(2, 2, 1), (3, 1, 1), (2, 1, 2), (1, 2, 2), (2, 2, 2), (3, 2, 1)])
            out.append((rnd.choice(NETS_ALL), ("grid", w, h, d, rnd.randrange(8), [rnd.randrange(2) for _ in range(w * h * d)])))
    if engine_multigraph:
        out += [("AB_rev", g) for g in MULTI_GRAPHS]
    seen, uniq = set(), []
    for p in out:
        if repr(p) not in seen:
            seen.add(repr(p))
            uniq.append(p)
    return uniq


def describe(netname, spacedesc):
    return "%s on %s" % (netname, "x".join(map(str, spacedesc[1:4])) + " bc%s" % spacedesc[4] if spacedesc[0] == "grid" else "graph:" + spacedesc[1])
