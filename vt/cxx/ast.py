"""Front end of cxx-sym: dump clang's typed JSON AST of the engine from /repo's current sources."""
import json
import os
import subprocess
import time

from ..common import ENGINE_SRC, HarnessError, scratch, file_hash

NS = "strengths_verif_ns"
SHIM = """#include <iostream>
#include <random>
#include <chrono>
#include <vector>
#include <string>
#include <cmath>
#include <cstdlib>
#include <algorithm>
namespace %s {
#include "engine.cpp"
}
""" % NS

_cache = {}


def _fill_locations(root):
    """clang omits 'line'/'file' when unchanged since the previously printed location: make explicit."""
    state = {"line": 0, "file": ""}

    def loc(d):
        if not isinstance(d, dict):
            return
        for sub in ("spellingLoc", "expansionLoc"):
            if sub in d:
                loc(d[sub])
        if "file" in d:
            state["file"] = d["file"]
        if "line" in d:
            state["line"] = d["line"]

    def walk(n):
        if not isinstance(n, dict):
            return
        if "loc" in n:
            loc(n["loc"])
        if "range" in n:
            loc(n["range"].get("begin"))
            n["_line"] = state["line"]
            n["_file"] = os.path.basename(state["file"])
            loc(n["range"].get("end"))
        for c in n.get("inner", []):
            walk(c)

    walk(root)


def load_ast(src_dir=None):
    """Returns (root, info). Re-dumped on every process start from the working tree."""
    src_dir = src_dir or ENGINE_SRC
    if src_dir in _cache:
        return _cache[src_dir]
    t0 = time.time()
    wd = scratch()
    shim = os.path.join(wd, "shim.cpp")
    cache = os.path.join(wd, "engine_ast.json")
    cmd = ["clang++-14", "-std=c++11", "-fsyntax-only", "-I" + src_dir, "-Xclang", "-ast-dump=json",
           "-Xclang", "-ast-dump-filter=" + NS, shim]
    from ..common import flock
    with flock("ast"):
        if not os.path.exists(cache):      # dumped once per check run (workers share the parent's scratch)
            with open(shim, "w") as f:
                f.write(SHIM)
            outp = subprocess.run(cmd, capture_output=True, text=True)
            if outp.returncode != 0 or not outp.stdout.strip():
                raise HarnessError("clang AST dump failed: %s" % outp.stderr[-800:])
            with open(cache + ".tmp", "w") as f:
                f.write(outp.stdout)
            os.replace(cache + ".tmp", cache)
    text = open(cache).read()

    class _O:
        stdout = text
    out = _O()
    root = json.JSONDecoder().raw_decode(out.stdout.lstrip())[0]
    _fill_locations(root)
    files = sorted(f for f in os.listdir(src_dir) if f.endswith((".hpp", ".cpp")))
    info = {"cmd": " ".join(cmd[:-1]) + " shim.cpp", "seconds": round(time.time() - t0, 2),
            "bytes": len(out.stdout), "sources": {f: file_hash(os.path.join(src_dir, f)) for f in files}}
    _cache[src_dir] = (root, info)
    return root, info
