"""Harness helpers that drive the exported C ABI of the engine inside the symbolic interpreter,
exactly as librdengine.py drives it (same argument order, buffers of exactly the Python-side sizes)."""
from fractions import Fraction

import z3

from ..common import HarnessError
from ..glue import GRID_NAMES, GRAPH_NAMES
from .ast import load_ast
from .interp import Program, Interp, Vec, Ptr, Obj, is_sym, explore, EndPath  # noqa

_prog = None
_info = None

INT_ARRAYS = {"chstt", "env", "sub", "sto", "edge_i", "edge_j"}
DBL_ARRAYS = {"state", "k", "D", "t_sample", "edge_sfc", "edge_dst"}


def program():
    global _prog, _info
    if _prog is None:
        root, _info = load_ast()
        _prog = Program(root)
    return _prog


def ast_info():
    program()
    return _info


def frac(x):
    """Exact rational for a Python number coming out of the marshalling layer (floats are binary
    rationals; the decimal constants of the catalogue are chosen dyadic so nothing is lost)."""
    if is_sym(x) or isinstance(x, (Fraction,)):
        return x
    if isinstance(x, bool):
        return x
    if isinstance(x, int):
        return Fraction(x)
    return Fraction(x)


def abi_args(kind, named):
    """named: dict from glue.record_setup (possibly with z3 terms substituted). Returns arg list."""
    names = GRID_NAMES if kind == "grid" else GRAPH_NAMES
    out = []
    for nm in names:
        v = named[nm]
        if nm in INT_ARRAYS:
            out.append(Ptr(Vec([int(x) if not is_sym(x) else x for x in v], "int", raw=True, name=nm)))
        elif nm in DBL_ARRAYS or (nm == "vol" and kind == "graph"):
            out.append(Ptr(Vec([frac(x) for x in v], "double", raw=True, name=nm)))
        elif nm in ("vol", "interval", "t_max", "dt"):
            out.append(frac(v))
        elif isinstance(v, str) or is_sym(v):
            out.append(v)
        else:
            out.append(int(v))
    return out


def initialize(I, kind, named):
    I.new_epoch()       # a new set-up: whatever was written before belongs to an earlier simulation
    r = I.call_fn("engineexport_initialize_" + kind, abi_args(kind, named))
    return r


def algo(I, kind=None):
    """The live algorithm object behind the global pointer."""
    if kind is None:
        st = I.global_box("global_space_type").get()
        kind = "grid" if st == 0 else "graph"
    p = I.global_box("global_%s_algo" % kind).get()
    if p is None or p.target is None:
        raise HarnessError("global_%s_algo is null" % kind)
    return p.target


def fetch_output(I, n_species, n_cells):
    """get_nsamples / get_trajectory / get_tsample into buffers of exactly the sizes Python allocates."""
    n = I.call_fn("engineexport_get_nsamples", [])
    if is_sym(n):
        raise HarnessError("symbolic sample count")
    data = Vec([None] * (n * n_species * n_cells), "double", raw=True, name="trajectory_data")
    I.call_fn("engineexport_get_trajectory", [Ptr(data)])
    ts = Vec([None] * n, "double", raw=True, name="t_sample_out")
    I.call_fn("engineexport_get_tsample", [Ptr(ts)])
    return n, data.elems, ts.elems


def class_of(option, kind):
    return {"euler": "Euler", "tauleap": "TauLeap", "gillespie": "Gillespie"}[option] + ("3D" if kind == "grid" else "Graph")


def model_value(m, term):
    """Rational value of a z3 term in model m (model completion on)."""
    v = m.eval(term, model_completion=True)
    if z3.is_int_value(v):
        return Fraction(v.as_long())
    if z3.is_rational_value(v):
        return Fraction(v.numerator_as_long(), v.denominator_as_long())
    if z3.is_algebraic_value(v):
        a = v.approx(30)
        return Fraction(a.numerator_as_long(), a.denominator_as_long())
    if z3.is_true(v):
        return True
    if z3.is_false(v):
        return False
    raise HarnessError("cannot evaluate %s in model (got %s)" % (term, v))
