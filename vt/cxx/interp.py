"""cxx-sym: symbolic interpreter over clang's typed JSON AST of the strengths engine.

Semantics (stated in every evidence file that uses it):
  int/size_t/bool -> Python int/bool or z3 Int/Bool (no wrap-around: sizes are tiny);
  double          -> fractions.Fraction or z3 Real (REAL-NUMBER MODEL of IEEE doubles);
  std::vector<T>  -> Vec (bounds-checked list, symbolic index => ITE read/update + obligation);
  raw T* of the C ABI -> Ptr to a Vec of exactly the allocated length;
  objects         -> Obj (field boxes, dynamic class, freed flag).
Branches on symbolic conditions fork the path (trace-replay DFS, one incremental solver per run);
side-effect-compatible regions (if-statements, &&/||, summarised calls) are merged into ITE terms.
Failed *read* obligations are recorded and the read yields a fresh unconstrained value (havoc);
failed writes / deletes / calls through freed objects end the path.
"""
import json
import time
from fractions import Fraction

import z3

from ..common import HarnessError


import os as _os
_SLOW = float(_os.environ.get("VT_SLOW", "0") or 0)


class Unsupported(HarnessError):
    pass


class EndPath(Exception):
    def __init__(self, reason):
        Exception.__init__(self, reason)
        self.reason = reason


class UnwindBound(EndPath):
    pass


class CannotMerge(Exception):
    pass


class BreakEx(Exception):
    pass


class ContinueEx(Exception):
    pass


class ReturnEx(Exception):
    def __init__(self, v):
        self.v = v


def is_sym(v):
    return isinstance(v, z3.ExprRef)


# ------------------------------------------------------------------------------- journalled store
_J = []          # stack of journals (lists of undo entries); empty stack => no journalling


def _jlog(e):
    if _J:
        _J[-1].append(e)


_EPOCH = [0]     # incremented by harnesses at every engine set-up: lets process-lifetime storage be aged


class Box:
    __slots__ = ("v", "name", "epoch")

    def __init__(self, v=None, name=""):
        self.v = v
        self.name = name
        self.epoch = _EPOCH[0]

    def get(self):
        return self.v

    def set(self, v):
        _jlog((0, self, self.v))
        self.v = v
        self.epoch = _EPOCH[0]


class Vec:
    """std::vector<T> or a raw C buffer (raw=True)."""

    def __init__(self, elems=None, et="double", raw=False, name=""):
        self.elems = list(elems or [])
        self.et = et
        self.raw = raw
        self.name = name

    def copy(self):
        return Vec([e.copy() if isinstance(e, Vec) else e for e in self.elems], self.et, False, self.name)

    def set_elems(self, new):
        _jlog((2, self, self.elems))
        self.elems = new


class Obj:
    def __init__(self, cls):
        self.cls = cls
        self.fields = {}
        self.freed = False

    def field(self, name):
        return self.fields[name].get()

    def setfield(self, name, v):
        self.fields[name].set(v)


class Ptr:
    __slots__ = ("target",)

    def __init__(self, target):
        self.target = target


class ElemRef:
    __slots__ = ("vec", "idx", "I", "node")

    def __init__(self, vec, idx, interp, node=None):
        self.vec, self.idx, self.I, self.node = vec, idx, interp, node

    def get(self):
        return self.I.vec_read(self.vec, self.idx, self.node)

    def set(self, v):
        self.I.vec_write(self.vec, self.idx, v, self.node)


def _rollback(j):
    for e in reversed(j):
        k = e[0]
        if k == 0:
            e[1].v = e[2]
        elif k == 1:
            e[1].elems[e[2]] = e[3]
        elif k == 2:
            e[1].elems = e[2]
        elif k == 3:
            e[1].freed = e[2]


def _finals(j):
    """Final values of every location written in journal j (read before rollback)."""
    out = {}
    for e in j:
        k = e[0]
        if k == 0:
            out[(0, id(e[1]))] = (e[1], None, e[1].v)
        elif k == 1:
            if (2, id(e[1])) not in out:
                out[(1, id(e[1]), e[2])] = (e[1], e[2], e[1].elems[e[2]] if e[2] < len(e[1].elems) else None)
        elif k == 2:
            out[(2, id(e[1]))] = (e[1], None, list(e[1].elems))
        elif k == 3:
            out[(3, id(e[1]))] = (e[1], None, e[1].freed)
    # element entries shadowed by a whole-vector entry
    for key in [k for k in out if k[0] == 1 and (2, k[1]) in out]:
        del out[key]
    # refresh whole-vector snapshots (taken last)
    for key, (o, _, _) in list(out.items()):
        if key[0] == 2:
            out[key] = (o, None, list(o.elems))
    return out


# ------------------------------------------------------------------------------- program index
class Program:
    """Index of the AST: declarations by id, classes, free functions. Built once per process."""

    def __init__(self, root):
        self.by_id = {}
        self.classes = {}
        self.funcs = {}
        self.globals_decl = {}
        self._methods = {}
        self._fields = {}
        self._index(root, None, 0)

    def _index(self, n, cls, depth):
        if not isinstance(n, dict):
            return
        k = n.get("kind")
        if "id" in n and k and k.endswith("Decl"):
            self.by_id[n["id"]] = n
        if k == "CXXRecordDecl" and n.get("completeDefinition"):
            self.classes[n["name"]] = n
            cls = n["name"]
        if k in ("CXXMethodDecl", "CXXConstructorDecl", "CXXDestructorDecl"):
            n["_cls"] = cls
        if k == "FunctionDecl" and any(c.get("kind") == "CompoundStmt" for c in n.get("inner", [])):
            self.funcs.setdefault(n["name"], []).append(n)
        if k == "VarDecl" and cls is None and depth <= 3 and n.get("storageClass") != "static":
            self.globals_decl.setdefault(n["name"], n)
        for c in n.get("inner", []):
            self._index(c, cls, depth + 1)

    def base_names(self, cname):
        c = self.classes[cname]
        return [b["type"]["qualType"].split("::")[-1] for b in c.get("bases", [])]

    def methods_of(self, cname):
        if cname in self._methods:
            return self._methods[cname]
        out = {}
        for b in self.base_names(cname):
            out.update(self.methods_of(b))
        for m in self.classes[cname].get("inner", []):
            if m.get("kind") == "CXXMethodDecl" and any(x.get("kind") == "CompoundStmt" for x in m.get("inner", [])):
                out[m["name"]] = m
        self._methods[cname] = out
        return out

    def fields_of(self, cname):
        if cname in self._fields:
            return self._fields[cname]
        out = []
        for b in self.base_names(cname):
            out += self.fields_of(b)
        out += [m for m in self.classes[cname].get("inner", []) if m.get("kind") == "FieldDecl"]
        self._fields[cname] = out
        return out

    def fn(self, name):
        if name not in self.funcs:
            raise HarnessError("function %s not found in the engine AST" % name)
        return self.funcs[name][0]

    def method(self, cname, name):
        m = self.methods_of(cname).get(name)
        if m is None:
            raise HarnessError("method %s::%s not found in the engine AST" % (cname, name))
        return m

    def where(self, decl):
        return "%s:%s" % (decl.get("_file", "?"), decl.get("_line", "?"))


# ------------------------------------------------------------------------------- fork contexts
class ForkCtx:
    __slots__ = ("trace", "pos", "alts", "local")

    def __init__(self, prefix, local):
        self.trace = list(prefix)
        self.pos = 0
        self.alts = []
        self.local = local


def _strip_type(qt):
    qt = qt.replace("const ", "").replace("struct ", "").replace("class ", "").strip()
    while qt.endswith("&") or qt.endswith(" "):
        qt = qt[:-1]
    return qt.strip()


_MT = "std::mersenne_twister_engine<"


class Interp:
    def __init__(self, prog, timeout_ms=20000, unwind=8, merge=True, summarise=("ReactionProp", "Poisson")):
        self.P = prog
        self.pc = []                # decided path condition (list of z3 Bool)
        self.defs = []              # definitional constraints / harness assumptions (never popped)
        self.solver = z3.Solver()
        self.solver.set("timeout", timeout_ms)
        self.timeout_ms = timeout_ms
        self.ctx = ForkCtx([], False)
        self.globals = {}
        self.frame = {}
        self.this = None
        self.events = []            # RNG draws, clock reads, constructions ... in program order
        self.event_cond = {}        # index in events -> local condition under which the event happens (merged regions)
        self.safety = []            # failed safety obligations: dict(kind, where, detail, model)
        self.safety_unknown = []
        self.n_safety_checked = 0
        self.calltrace = []
        self.trace_calls = False
        self.trace_only = None      # restrict the call trace to these names (traced calls are never merged)
        self.depth = 0
        self.unwind = unwind
        self.merge = merge
        self.summarise = set(summarise)
        self.fresh_n = 0
        self.fresh_by = {}
        self.fn_stack = []
        self.solver_s = 0.0
        self.n_checks = 0
        self.unknown_forks = 0
        self.n_retry_ok = 0
        self.linearize_uniform = True
        self.lazy_merge = True
        self.loop_hook = None       # callable(I, node, cond, body) -> True if the harness handled the loop itself
        self.statics = {}           # function-local statics: decl id -> Box (one per process)
        self.static_const = {}
        self.stale_reads = []       # reads of process-lifetime storage last written during an EARLIER set-up epoch
        self.fresh_globals = set()
        _EPOCH[0] = 0
        self.uniform_syms = set()
        self.nomerge = set()
        self.havocs = []
        self.stubs = {}             # function/method name -> callable(I, this, args) replacing the body
        self.check_lib_pre = True   # check library preconditions (poisson mean > 0) at every draw

    # ------------------------------------------------------------------ solver plumbing
    def fresh(self, base, sort="real"):
        self.fresh_n += 1
        k = self.fresh_by[base] = self.fresh_by.get(base, 0) + 1
        name = "%s!%d" % (base, k)
        return z3.Real(name) if sort == "real" else (z3.Int(name) if sort == "int" else z3.Bool(name))

    def assume(self, c):
        """Harness assumption or definitional constraint: holds on every path."""
        self.defs.append(c)
        self.solver.add(c)

    def _add_pc(self, c):
        self.pc.append(c)
        self.solver.add(c)

    def check(self, *extra):
        t0 = time.time()
        self.solver.push()
        try:
            self.solver.add(*extra)
            r = self.solver.check()
            m = self.solver.model() if r == z3.sat else None
        finally:
            self.solver.pop()
        if r == z3.unknown:
            # retry non-incrementally with the complete NRA procedure before giving up
            try:
                s2 = z3.Tactic("qfnra-nlsat").solver()
                s2.set("timeout", self.timeout_ms)
                s2.add(*self.defs)
                s2.add(*self.pc)
                s2.add(*extra)
                r2 = s2.check()
                if r2 != z3.unknown:
                    r = r2
                    m = s2.model() if r2 == z3.sat else None
                    self.n_retry_ok += 1
            except z3.Z3Exception:
                pass
        self.solver_s += time.time() - t0
        self.n_checks += 1
        if _SLOW and time.time() - t0 > _SLOW:
            import sys as _s
            print("SLOW %.1fs %s npc=%d extra=%s" % (time.time() - t0, r, len(self.pc), str(extra)[:300].replace("\n", " ")), file=_s.stderr)
        return str(r), m

    def prove(self, claim):
        """('holds'|'violated'|'inconclusive', model) for claim under defs+pc."""
        r, m = self.check(z3.Not(claim))
        if r == "unsat":
            return "holds", None
        if r == "sat":
            return "violated", m
        return "inconclusive", None

    def tosym(self, v):
        if is_sym(v):
            return v
        if isinstance(v, bool):
            return z3.BoolVal(v)
        if isinstance(v, int):
            return z3.IntVal(v)
        if isinstance(v, Fraction):
            if v.denominator == 1:
                return z3.RealVal(v.numerator)
            return z3.Q(v.numerator, v.denominator)
        raise Unsupported("tosym(%r)" % (type(v),))

    def toreal(self, v):
        v = self.tosym(v)
        if z3.is_int(v):
            return z3.ToReal(v)
        return v

    # ------------------------------------------------------------------ forking
    def fork(self, cond):
        cond = z3.simplify(cond)
        if z3.is_true(cond):
            return True
        if z3.is_false(cond):
            return False
        ctx = self.ctx
        i = ctx.pos
        ctx.pos += 1
        if i < len(ctx.trace):
            kind, val = ctx.trace[i]
            if kind == "M":
                raise HarnessError("trace replay diverged (merge marker met at a fork)")
            if kind == "D":
                self._add_pc(cond if val else z3.Not(cond))
            return val
        if ctx.local and self.lazy_merge:
            # inside a merge region both sides are explored without a feasibility query: the merged
            # ITE guards each side by its condition, and safety obligations are decided under the pc
            ctx.alts.append(ctx.trace[:i] + [("D", False)])
            ctx.trace.append(("D", True))
            self._add_pc(cond)
            return True
        rt, _ = self.check(cond)
        if rt == "unsat":
            ctx.trace.append(("F", False))
            return False
        rf, _ = self.check(z3.Not(cond))
        if rf == "unsat":
            ctx.trace.append(("F", True))
            return True
        if rt != "sat" or rf != "sat":
            self.unknown_forks += 1
        ctx.alts.append(ctx.trace[:i] + [("D", False)])
        ctx.trace.append(("D", True))
        self._add_pc(cond)
        return True

    def truth(self, v):
        if is_sym(v):
            if z3.is_bool(v):
                return self.fork(v)
            return self.fork(v != 0)
        return bool(v)

    def region(self, thunk, node):
        """Execute thunk; if it forks, explore its local paths and merge them into ITE terms.
        Falls back to ordinary forking when the local paths are not mergeable."""
        if not self.merge:
            return thunk()
        ctx = self.ctx
        i = ctx.pos
        ctx.pos += 1
        if i < len(ctx.trace):
            kind, ok = ctx.trace[i]
            if kind != "M":
                raise HarnessError("trace replay diverged (fork met at a merge marker)")
            if not ok:
                return thunk()
            return self._merged(thunk, node)       # replay of a successful merge
        try:
            r = self._merged(thunk, node)
            ctx.trace.append(("M", True))
            return r
        except (BreakEx, ContinueEx, ReturnEx):
            ctx.trace.append(("M", True))      # a successful merge whose common exit is break/continue/return
            raise
        except CannotMerge:
            ctx.trace.append(("M", False))
            return thunk()

    def _merged(self, thunk, node):
        outer = self.ctx
        results = []
        work = [[]]
        n_events = len(self.events)
        try:
            while work:
                prefix = work.pop()
                ctx = ForkCtx(prefix, True)
                self.ctx = ctx
                _J.append([])
                pcl = len(self.pc)
                ndefs = len(self.defs)
                self.solver.push()
                kind, ret, fail = "normal", None, None
                try:
                    ret = thunk()
                    if hasattr(ret, "get"):
                        ret = ret.get()
                except BreakEx:
                    kind = "break"
                except ContinueEx:
                    kind = "continue"
                except ReturnEx as e:
                    kind, ret = "return", e.v
                except (EndPath, CannotMerge) as e:
                    fail = e
                finally:
                    j = _J.pop()
                    fin = _finals(j)
                    _rollback(j)
                    local_pc = self.pc[pcl:]
                    del self.pc[pcl:]
                    self.solver.pop()
                    for dcons in self.defs[ndefs:]:
                        self.solver.add(dcons)
                local_events = self.events[n_events:]
                del self.events[n_events:]
                if fail is not None:
                    raise CannotMerge()
                results.append((local_pc, kind, ret, fin, local_events))
                work.extend(ctx.alts)
                if len(results) > 64:
                    raise CannotMerge()
        finally:
            self.ctx = outer
        kinds = {r[1] for r in results}
        if len(kinds) != 1:
            raise CannotMerge()
        kind = results[0][1]
        # merge written locations
        locs = {}
        for _, _, _, fin, _ in results:
            for key, (o, idx, _) in fin.items():
                locs[key] = (o, idx)
        conds = [z3.And(*lp) if lp else z3.BoolVal(True) for lp, _, _, _, _ in results]
        # events of the local paths are kept, each under its local condition
        for c, (_, _, _, _, evs) in zip(conds, results):
            for e in evs:
                self.event_cond[len(self.events)] = c if len(results) > 1 else None
                self.events.append(e)
        for key, (o, idx) in locs.items():
            if key[0] == 0:
                pre = o.v
            elif key[0] == 1:
                pre = o.elems[idx]
            elif key[0] == 2:
                pre = list(o.elems)
            else:
                pre = o.freed
            vals = [fin[key][2] if key in fin else pre for _, _, _, fin, _ in results]
            mv = self._merge_vals(conds, vals)
            if key[0] == 0:
                o.set(mv)
            elif key[0] == 1:
                _jlog((1, o, idx, o.elems[idx]))
                o.elems[idx] = mv
            elif key[0] == 2:
                o.set_elems(mv)
            else:
                if mv is not True and mv is not False:
                    raise CannotMerge()
                _jlog((3, o, o.freed))
                o.freed = mv
        ret = self._merge_vals(conds, [r[2] for r in results])
        if kind == "break":
            raise BreakEx()
        if kind == "continue":
            raise ContinueEx()
        if kind == "return":
            raise ReturnEx(ret)
        return ret

    def _merge_vals(self, conds, vals):
        v0 = vals[0]
        if all(v is v0 for v in vals):
            return v0
        if all(isinstance(v, list) for v in vals):
            n = len(v0)
            if any(len(v) != n for v in vals):
                raise CannotMerge()
            return [self._merge_vals(conds, [v[k] for v in vals]) for k in range(n)]
        if all(isinstance(v, Vec) for v in vals):
            if all(v is v0 for v in vals):
                return v0
            n = len(v0.elems)
            if any(len(v.elems) != n for v in vals):
                raise CannotMerge()
            return Vec([self._merge_vals(conds, [v.elems[k] for v in vals]) for k in range(n)], v0.et)
        if all(isinstance(v, Ptr) for v in vals):
            if all(v.target is v0.target for v in vals):
                return v0
            raise CannotMerge()
        if any(isinstance(v, (Vec, Ptr, Obj, list, tuple, str)) or v is None for v in vals):
            if all(type(v) == type(v0) and v == v0 for v in vals):
                return v0
            raise CannotMerge()
        if all(not is_sym(v) for v in vals) and all(type(v) == type(v0) and v == v0 for v in vals):
            return v0
        sv = [self.tosym(v) for v in vals]
        if any(z3.is_real(x) for x in sv) and not all(z3.is_bool(x) for x in sv):
            sv = [z3.ToReal(x) if z3.is_int(x) else x for x in sv]
        r = sv[-1]
        for k in range(len(sv) - 2, -1, -1):
            r = z3.If(conds[k], sv[k], r)
        return z3.simplify(r)

    # ------------------------------------------------------------------ safety obligations
    def where(self, node):
        if node is None:
            return "?"
        return "%s:%s" % (node.get("_file", "?"), node.get("_line", "?"))

    def safety_fail(self, kind, node, detail, model=None):
        if model is None and (self.pc or self.unknown_forks):
            # concrete failure on a path whose feasibility rests on earlier solver answers: confirm it
            r, model = self.check()
            if r == "unsat":
                raise EndPath("infeasible path")
            if r != "sat":
                self.safety_unknown.append((kind, self.where(node), detail + " (path feasibility undecided)"))
                raise EndPath("path feasibility undecided")
        self.safety.append({"kind": kind, "where": self.where(node), "detail": detail, "fn": self.fn_stack[-1] if self.fn_stack else "?",
                            "model": model, "pc": list(self.pc)})

    def havoc(self, et, why):
        v = self.fresh("havoc", "int" if et in ("int", "bool", "size_t") else "real")
        self.havocs.append((str(v), why))
        return v

    def vec_index_ok(self, vec, idx, node, write):
        """True if in range on this path; records a failure otherwise (and returns False)."""
        n = len(vec.elems)
        self.n_safety_checked += 1
        what = "%s of %s[%s] (length %d)" % ("write" if write else "read", vec.name or ("buffer" if vec.raw else "vector"), idx, n)
        if not is_sym(idx):
            if 0 <= idx < n:
                return True
            self.safety_fail("out-of-bounds " + ("write" if write else "read"), node, what)
            return False
        r, m = self.check(z3.Not(z3.And(idx >= 0, idx < n)))
        if r == "unsat":
            return True
        if r == "sat":
            self.safety_fail("out-of-bounds " + ("write" if write else "read"), node, what, m)
        else:
            self.safety_unknown.append(("index", self.where(node), what))
        # continue on the in-range part of the path
        self._add_pc(z3.And(idx >= 0, idx < n))
        return n > 0

    def vec_read(self, vec, idx, node):
        if not isinstance(vec, Vec):
            raise Unsupported("subscript on %r at %s" % (type(vec), self.where(node)))
        ok = self.vec_index_ok(vec, idx, node, False)
        if not is_sym(idx):
            if not ok:
                return self.havoc(vec.et, "out-of-range read at " + self.where(node))
            v = vec.elems[idx]
            if v is None:
                self.safety_fail("uninitialised read", node, "element %d of %s" % (idx, vec.name or "buffer"))
                return self.havoc(vec.et, "uninitialised read at " + self.where(node))
            return v
        if not ok:
            return self.havoc(vec.et, "out-of-range read at " + self.where(node))
        elems = vec.elems
        if any(e is None for e in elems):
            self.safety_fail("uninitialised read", node, "symbolic index into partly uninitialised %s" % (vec.name or "buffer"))
            elems = [self.havoc(vec.et, "uninit") if e is None else e for e in elems]
        if any(isinstance(e, Vec) for e in elems):
            raise Unsupported("symbolic index into vector of vectors at " + self.where(node))
        r = self.tosym(elems[-1])
        for k in range(len(elems) - 2, -1, -1):
            a, b = self.tosym(elems[k]), r
            if z3.is_real(a) != z3.is_real(b) and not z3.is_bool(a):
                a, b = self.toreal(a), self.toreal(b)
            r = z3.If(idx == k, a, b)
        return r

    def vec_write(self, vec, idx, v, node):
        if not isinstance(vec, Vec):
            raise Unsupported("subscript store on %r at %s" % (type(vec), self.where(node)))
        ok = self.vec_index_ok(vec, idx, node, True)
        if not ok:
            raise EndPath("out-of-bounds write at " + self.where(node))
        if isinstance(v, Vec):
            v = v.copy()
        if not is_sym(idx):
            _jlog((1, vec, idx, vec.elems[idx]))
            vec.elems[idx] = v
            return
        new = []
        for k, e in enumerate(vec.elems):
            if e is None:
                e = self.havoc(vec.et, "uninit")
            a, b = self.tosym(v), self.tosym(e)
            if z3.is_real(a) != z3.is_real(b) and not z3.is_bool(a):
                a, b = self.toreal(a), self.toreal(b)
            new.append(z3.If(idx == k, a, b))
        vec.set_elems(new)

    # ------------------------------------------------------------------ objects
    def default_value(self, qt):
        qt = _strip_type(qt)
        if qt.startswith("std::vector<"):
            return Vec([], qt[len("std::vector<"):-1].strip())
        if qt in ("std::mt19937",) or qt.startswith(_MT):
            return ("rng", None, "default")
        if qt.startswith("std::uniform_real_distribution"):
            return ("uiud", (Fraction(0), Fraction(1)))
        return None  # scalars and pointers: indeterminate

    def new_epoch(self):
        """harness hook: a new engine set-up begins (everything written before belongs to an earlier simulation)"""
        _EPOCH[0] += 1
        self.fresh_globals = set()

    def new_obj(self, cname):
        if cname not in self.P.classes:
            raise Unsupported("new of unknown class " + cname)
        o = Obj(cname)
        for f in self.P.fields_of(cname):
            o.fields[f["name"]] = Box(self.default_value(f["type"]["qualType"]), f["name"])
            v = o.fields[f["name"]].v
            if isinstance(v, Vec):
                v.name = f["name"]
        return o

    def global_box(self, name):
        d = self.P.globals_decl.get(name)
        if d is None:
            raise HarnessError("global %s not found" % name)
        return self._global(d["id"])

    def _global(self, did):
        if did in self.globals:
            return self.globals[did]
        gd = self.P.by_id.get(did)
        if gd is None:
            raise Unsupported("unknown global id " + did)
        init = [c for c in gd.get("inner", []) if c.get("kind") not in ("FullComment",)]
        if init:
            v = self.val(init[0])
        else:  # static storage: zero-initialised
            q = gd["type"]["qualType"]
            v = Ptr(None) if "*" in q else (False if q == "bool" else (Fraction(0) if q == "double" else 0))
        b = Box(v, gd.get("name", ""))
        self.globals[did] = b
        self.fresh_globals.add(did)      # first touched now: its static initial value is not history
        return b

    # ------------------------------------------------------------------ calls
    def call(self, fdecl, args, this=None):
        """args: values or references (Box/ElemRef)."""
        params = [p for p in fdecl.get("inner", []) if p.get("kind") == "ParmVarDecl"]
        body = [c for c in fdecl.get("inner", []) if c.get("kind") == "CompoundStmt"]
        if not body:
            raise Unsupported("call of function without body: " + fdecl.get("name", "?"))
        if len(params) != len(args):
            raise Unsupported("arity mismatch calling " + fdecl.get("name", "?"))
        frame = {}
        for p, a in zip(params, args):
            q = p["type"]["qualType"]
            if q.rstrip().endswith("&"):
                frame[p["id"]] = a if hasattr(a, "get") else Box(a, p.get("name", ""))
            else:
                v = a.get() if hasattr(a, "get") else a
                frame[p["id"]] = Box(v.copy() if isinstance(v, Vec) and not v.raw else v, p.get("name", ""))
        if self.trace_calls and (self.trace_only is None or fdecl.get("name") in self.trace_only):
            if self.ctx.local:
                raise CannotMerge()
            self.calltrace.append((self.depth, fdecl.get("name", "?"),
                                   [(a.get() if hasattr(a, "get") else a) for a in args if not isinstance(a, (Vec, Ptr))]))
        stub = self.stubs.get(fdecl.get("name"))
        if stub is not None:
            return stub(self, this, args)
        saved = (self.frame, self.this)
        self.frame, self.this = frame, this
        self.depth += 1
        self.fn_stack.append(fdecl.get("name", "?"))
        if self.depth > 60:
            raise Unsupported("call depth")
        try:
            self.stmt(body[0])
            r = None
        except ReturnEx as e:
            r = e.v
        finally:
            self.frame, self.this = saved
            self.depth -= 1
            self.fn_stack.pop()
        rt = fdecl["type"]["qualType"].split("(")[0]
        if isinstance(r, Vec) and "&" not in rt:
            r = r.copy()
        return r

    def call_fn(self, name, args):
        return self.call(self.P.fn(name), args)

    def call_method(self, obj, name, args=()):
        if obj.freed:
            self.safety_fail("use after free", None, "method %s called on a deleted %s" % (name, obj.cls))
            raise EndPath("use after free")
        return self.call(self.P.method(obj.cls, name), list(args), this=obj)

    # ------------------------------------------------------------------ statements
    def stmt(self, n):
        k = n["kind"]
        if k == "CompoundStmt":
            for c in n.get("inner", []):
                self.stmt(c)
        elif k == "DeclStmt":
            for d in n["inner"]:
                if d["kind"] != "VarDecl":
                    raise Unsupported("DeclStmt/" + d["kind"])
                init = [c for c in d.get("inner", []) if c.get("kind") not in ("FullComment",)]
                q = d["type"]["qualType"]
                if d.get("storageClass") == "static":
                    # function-local static: initialised once per process, then shared by every call
                    if d["id"] not in self.statics:
                        v0 = self.val(init[0]) if init else self.default_value(q)
                        if isinstance(v0, Vec):
                            v0 = v0.copy()
                            v0.name = d.get("name", "")
                        b0 = Box(v0, d.get("name", ""))
                        self.statics[d["id"]] = b0
                        self.static_const[d["id"]] = q.strip().startswith("const")
                    self.frame[d["id"]] = self.statics[d["id"]]
                    continue
                if init:
                    v = self.rvalue(init[0])
                    if q.rstrip().endswith("&"):
                        self.frame[d["id"]] = v if hasattr(v, "get") else Box(v, d.get("name", ""))
                        continue
                    v = v.get() if hasattr(v, "get") else v
                    if isinstance(v, Vec):
                        v = v.copy()
                        v.name = d.get("name", "")
                    self.frame[d["id"]] = Box(v, d.get("name", ""))
                else:
                    dv = self.default_value(q)
                    if isinstance(dv, Vec):
                        dv.name = d.get("name", "")
                    self.frame[d["id"]] = Box(dv, d.get("name", ""))
        elif k == "ForStmt":
            init, _, cond, inc, body = n["inner"]
            if init:
                self.stmt(init)
            self._loop(n, cond, inc, body)
        elif k == "WhileStmt":
            cond, body = n["inner"]
            self._loop(n, cond, None, body)
        elif k == "IfStmt":
            inner = n["inner"]
            c = self.val(inner[0])
            if is_sym(c):
                c = z3.simplify(c if z3.is_bool(c) else c != 0)
                if z3.is_true(c):
                    c = True
                elif z3.is_false(c):
                    c = False
            if not is_sym(c):
                if c:
                    self.stmt(inner[1])
                elif len(inner) > 2:
                    self.stmt(inner[2])
                return

            def run():
                if self.fork(c):
                    self.stmt(inner[1])
                elif len(inner) > 2:
                    self.stmt(inner[2])
            self.region(run, n)
        elif k == "ReturnStmt":
            v = self.rvalue(n["inner"][0]) if n.get("inner") else None
            if hasattr(v, "get"):
                v = v.get()
            raise ReturnEx(v)
        elif k == "BreakStmt":
            raise BreakEx()
        elif k == "ContinueStmt":
            raise ContinueEx()
        elif k == "NullStmt":
            pass
        elif k == "SwitchStmt":
            v = self.val(n["inner"][0])
            body = n["inner"][1]
            active = False
            try:
                for c in body["inner"]:
                    if c["kind"] == "CaseStmt":
                        if not active:
                            cv = self.val(c["inner"][0])
                            if self.truth(self.binop("==", v, cv)):
                                active = True
                        if active:
                            self.stmt(c["inner"][1])
                    elif c["kind"] == "DefaultStmt":
                        active = True
                        self.stmt(c["inner"][0])
                    elif active:
                        self.stmt(c)
            except BreakEx:
                pass
        else:
            self.rvalue(n)

    def _loop(self, n, cond, inc, body):
        if self.loop_hook is not None and self.loop_hook(self, n, cond, body):
            return
        it = 0
        symbolic_iters = 0
        while True:
            if cond:
                cv = self.val(cond)
                if is_sym(cv):
                    symbolic_iters += 1
                    if symbolic_iters > self.unwind:
                        raise UnwindBound("unwinding bound %d reached at %s" % (self.unwind, self.where(n)))
                if not self.truth(cv):
                    break
            it += 1
            if it > 200000:
                raise Unsupported("concrete loop bound at " + self.where(n))
            if not cond and it > self.unwind * 4 and self.pc:
                raise UnwindBound("unwinding bound reached in unconditional loop at " + self.where(n))
            try:
                if body.get("kind") == "CompoundStmt":
                    self._guarded(body.get("inner", []))
                else:
                    self.stmt(body)
            except BreakEx:
                break
            except ContinueEx:
                pass
            if inc:
                self.rvalue(inc)

    @staticmethod
    def _is_continue_guard(c):
        if c.get("kind") != "IfStmt" or len(c.get("inner", [])) != 2:
            return False
        t = c["inner"][1]
        if t.get("kind") == "CompoundStmt" and len(t.get("inner", [])) == 1:
            t = t["inner"][0]
        return t.get("kind") == "ContinueStmt"

    def _guarded(self, children):
        """Loop body: `if (c) continue; REST` with symbolic c is executed as the mergeable region
        `if (!c) { REST }` (same semantics: the compound is the loop body itself)."""
        for k, c in enumerate(children):
            if self._is_continue_guard(c):
                cv = self.val(c["inner"][0])
                if is_sym(cv):
                    cv = z3.simplify(cv if z3.is_bool(cv) else cv != 0)
                    if z3.is_true(cv):
                        cv = True
                    elif z3.is_false(cv):
                        cv = False
                if not is_sym(cv):
                    if cv:
                        raise ContinueEx()
                    continue
                rest = children[k + 1:]

                def run():
                    if self.fork(cv):
                        return None
                    try:
                        self._guarded(rest)
                    except ContinueEx:
                        pass
                    return None
                self.region(run, c)
                return
            self.stmt(c)

    # ------------------------------------------------------------------ expressions
    def val(self, n):
        v = self.rvalue(n)
        return v.get() if hasattr(v, "get") else v

    def rvalue(self, n):
        m = getattr(self, "e_" + n["kind"], None)
        if m is None:
            raise Unsupported("expression kind %s at %s" % (n["kind"], self.where(n)))
        return m(n)

    def e_ParenExpr(self, n):
        return self.rvalue(n["inner"][0])

    e_ConstantExpr = e_ParenExpr
    e_ExprWithCleanups = e_ParenExpr
    e_MaterializeTemporaryExpr = e_ParenExpr
    e_CXXBindTemporaryExpr = e_ParenExpr
    e_CXXStdInitializerListExpr = e_ParenExpr

    def e_CXXDefaultArgExpr(self, n):
        return ("defaultarg",)

    def e_IntegerLiteral(self, n):
        return int(n["value"])

    def e_FloatingLiteral(self, n):
        return Fraction(n["value"])

    def e_CXXBoolLiteralExpr(self, n):
        return bool(n["value"])

    def e_StringLiteral(self, n):
        return json.loads(n["value"])

    def e_CXXThisExpr(self, n):
        return Ptr(self.this)

    def e_CXXNullPtrLiteralExpr(self, n):
        return Ptr(None)

    def e_DeclRefExpr(self, n):
        d = n["referencedDecl"]
        dk = d["kind"]
        if dk in ("VarDecl", "ParmVarDecl"):
            b = self.frame.get(d["id"])
            if b is not None:
                return b
            return self._global(d["id"])
        if dk in ("FunctionDecl", "CXXMethodDecl"):
            return ("fn", d)
        if dk == "EnumConstantDecl":
            raise Unsupported("enum constant")
        raise Unsupported("DeclRefExpr/" + dk)

    def _stale_check(self, node):
        """node is used as a VALUE: if it names process-lifetime storage last written in an earlier set-up epoch, record it"""
        while node.get("kind") in ("ImplicitCastExpr", "ParenExpr") and node.get("castKind") in (None, "NoOp"):
            node = node["inner"][0]
        if node.get("kind") != "DeclRefExpr":
            return
        d = node["referencedDecl"]
        if d.get("kind") != "VarDecl":
            return
        did = d["id"]
        if did in self.statics and did in self.frame:
            b = self.statics[did]
            if not self.static_const.get(did) and b.epoch < _EPOCH[0]:
                self.stale_reads.append((d.get("name", "?"), self.where(node), "function-local static"))
        elif did in self.globals and did not in self.frame:
            if self.globals[did].epoch < _EPOCH[0] and did not in self.fresh_globals:
                self.stale_reads.append((d.get("name", "?"), self.where(node), "global"))

    def _deref(self, base, node):
        obj = base.target if isinstance(base, Ptr) else base
        if isinstance(base, Ptr) and obj is None:
            self.safety_fail("null dereference", node, "member access through a null/never-assigned pointer")
            raise EndPath("null dereference at " + self.where(node))
        return obj

    def e_MemberExpr(self, n):
        base = self.val(n["inner"][0])
        if base is None:
            self.safety_fail("uninitialised read", n, "member access through an indeterminate pointer")
            raise EndPath("indeterminate pointer at " + self.where(n))
        obj = self._deref(base, n)
        if isinstance(obj, Obj):
            if obj.freed:
                self.safety_fail("use after free", n, "access to %s::%s after delete" % (obj.cls, n.get("name")))
                raise EndPath("use after free at " + self.where(n))
            md = self.P.by_id.get(n.get("referencedMemberDecl"))
            if md is not None and md["kind"] == "FieldDecl":
                return obj.fields[n["name"]]
            return ("method", obj, n["name"])
        return ("method", obj, n["name"])

    def e_ImplicitCastExpr(self, n):
        ck = n.get("castKind")
        sub = n["inner"][0]
        if ck == "LValueToRValue":
            v = self.rvalue(sub)
            self._stale_check(sub)
            if hasattr(v, "get"):
                r = v.get()
                if r is None:
                    nm = getattr(v, "name", "") or "value"
                    self.safety_fail("uninitialised read", n, "read of never-assigned %s" % nm)
                    t = n["type"]["qualType"]
                    if t in ("int", "double", "bool", "size_t", "unsigned long"):
                        return self.havoc("double" if t == "double" else "int", "uninitialised " + nm)
                    raise EndPath("read of indeterminate %s at %s" % (nm, self.where(n)))
                return r
            return v
        if ck in ("NoOp", "FunctionToPointerDecay", "ArrayToPointerDecay", "DerivedToBase", "UncheckedDerivedToBase",
                  "ConstructorConversion", "UserDefinedConversion", "NullToPointer", "BitCast"):
            return self.rvalue(sub)
        return self.cast(ck, self.val(sub), n)

    e_CXXStaticCastExpr = e_ImplicitCastExpr
    e_CXXFunctionalCastExpr = e_ImplicitCastExpr
    e_CStyleCastExpr = e_ImplicitCastExpr

    def cast(self, ck, v, n=None):
        if ck == "IntegralCast":
            if isinstance(v, bool):
                return int(v)
            if is_sym(v) and z3.is_bool(v):
                return z3.If(v, z3.IntVal(1), z3.IntVal(0))
            return v
        if ck == "IntegralToFloating":
            if is_sym(v):
                if z3.is_bool(v):
                    v = z3.If(v, z3.IntVal(1), z3.IntVal(0))
                return z3.ToReal(v)
            return Fraction(int(v))
        if ck == "FloatingToIntegral":
            if getattr(self, "check_float_cast", False):
                # [conv.fpint]: undefined unless the truncated value fits the destination (32-bit int here)
                self.n_safety_checked += 1
                lo, hi = -(2 ** 31) - 1, 2 ** 31
                if is_sym(v):
                    r, m = self.check(z3.Not(z3.And(v > lo, v < hi)))
                    if r == "sat":
                        self.safety_fail("float-to-int conversion out of range", n, "the converted value can lie outside the range of int", m)
                    elif r != "unsat":
                        self.safety_unknown.append(("float-to-int", self.where(n), "range of the converted value undecided"))
                    self._add_pc(z3.And(v > lo, v < hi))
                elif not (lo < v < hi):
                    self.safety_fail("float-to-int conversion out of range", n, "value %s" % v)
                    return self.havoc("int", "float-to-int out of range")
            if is_sym(v):
                return z3.If(v >= 0, z3.ToInt(v), -z3.ToInt(-v))
            return int(v)  # Fraction.__trunc__: toward zero
        if ck in ("IntegralToBoolean", "FloatingToBoolean"):
            if is_sym(v) and z3.is_bool(v):
                return v
            return v != 0
        if ck == "FloatingCast":
            return v
        if ck == "PointerToBoolean":
            return v is not None and v.target is not None
        raise Unsupported("cast %s at %s" % (ck, self.where(n)))

    def int_div(self, a, b, n, mod):
        """C semantics: truncation toward zero; division by zero is a safety obligation."""
        if not is_sym(a) and not is_sym(b):
            if b == 0:
                self.safety_fail("integer division by zero", n, "%s %s 0" % (a, "%" if mod else "/"))
                raise EndPath("integer division by zero at " + self.where(n))
            q = abs(a) // abs(b)
            q = q if (a >= 0) == (b >= 0) else -q
            return a - q * b if mod else q
        a, b = self.tosym(a), self.tosym(b)
        r, m = self.check(b == 0)
        if r != "unsat":
            if r == "sat":
                self.safety_fail("integer division by zero", n, "divisor can be zero", m)
            else:
                self.safety_unknown.append(("div0", self.where(n), ""))
            self._add_pc(b != 0)
        absa = z3.If(a >= 0, a, -a)
        absb = z3.If(b >= 0, b, -b)
        q = absa / absb
        q = z3.If((a >= 0) == (b >= 0), q, -q)
        return a - q * b if mod else q

    def binop(self, op, a, b, n=None):
        if isinstance(a, (Ptr, str, tuple)) or isinstance(b, (Ptr, str, tuple)):
            if op in ("==", "!="):
                if isinstance(a, Ptr) and isinstance(b, Ptr):
                    eq = a.target is b.target
                else:
                    eq = a == b
                return eq if op == "==" else not eq
            if op == "-" and isinstance(a, tuple) and a[0] == "time":
                return ("dur", a[1] - b[1])
            raise Unsupported("binop %s on %r,%r" % (op, type(a), type(b)))
        sym = is_sym(a) or is_sym(b)
        if sym:
            sa, sb = self.tosym(a), self.tosym(b)
            if z3.is_bool(sa) and not z3.is_bool(sb):
                sa = z3.If(sa, z3.IntVal(1), z3.IntVal(0))
            if z3.is_bool(sb) and not z3.is_bool(sa):
                sb = z3.If(sb, z3.IntVal(1), z3.IntVal(0))
            ints = z3.is_int(sa) and z3.is_int(sb)
        else:
            ints = isinstance(a, int) and isinstance(b, int)
        if op in ("/", "%") and ints:
            return self.int_div(a, b, n, op == "%")
        if op == "%":
            raise Unsupported("floating % at " + self.where(n))
        if sym:
            a, b = sa, sb
            if op == "&&":
                return z3.And(a, b)
            if op == "||":
                return z3.Or(a, b)
        if sym and ints and op in ("+", "-", "*") and getattr(self, "check_int_overflow", False):
            # C++ int arithmetic on values the harness leaves unbounded (event counts drawn from the generator): the mathematical result
            # must fit a 32-bit int, otherwise the machine result wraps (undefined behaviour) - an obligation like an index in range
            r_ = {"+": a + b, "-": a - b, "*": a * b}[op]
            self.n_safety_checked += 1
            res, m_ = self.check(z3.Or(r_ > 2 ** 31 - 1, r_ < -2 ** 31))
            if res == "sat":
                self.safety_fail("signed integer overflow", n, "int %s int can leave the 32-bit range" % op, model=m_)
            elif res != "unsat":
                self.safety_unknown.append(("signed integer overflow", self.where(n), "undecided"))
        if op == "+":
            return a + b
        if op == "-":
            return a - b
        if op == "*":
            if sym and self.linearize_uniform:
                for u, y in ((a, b), (b, a)):
                    if is_sym(u) and u.get_id() in self.uniform_syms and is_sym(y) and not z3.is_rational_value(y):
                        return self.uniform_product(u, y)
            return a * b
        if op == "/":
            if not sym:
                if b == 0:
                    self.safety_fail("floating division by zero", n, "%s / 0" % a)
                    return self.havoc("double", "x/0")
                return Fraction(a) / Fraction(b)
            return a / b
        if op == "<":
            return a < b
        if op == "<=":
            return a <= b
        if op == ">":
            return a > b
        if op == ">=":
            return a >= b
        if op == "==":
            return a == b
        if op == "!=":
            return a != b
        if op in ("|", "&", "^", "<<", ">>") and ints:
            if not sym:
                return {"|": a | b, "&": a & b, "^": a ^ b, "<<": a << b, ">>": a >> b}[op]
            # bit operations on a symbolic integer (flag words): an opaque integer - sound over-approximation, nothing is claimed about it
            return self.fresh("bits", "int")
        raise Unsupported("binary operator " + op)

    def e_BinaryOperator(self, n):
        op = n["opcode"]
        L, R = n["inner"]
        if op == "=":
            ref = self.rvalue(L)
            v = self.val(R)
            if not hasattr(ref, "set"):
                raise Unsupported("assignment to non-lvalue at " + self.where(n))
            ref.set(v.copy() if isinstance(v, Vec) else v)
            return ref
        if op in ("&&", "||"):
            a = self.val(L)
            if is_sym(a):
                a = z3.simplify(a if z3.is_bool(a) else a != 0)
                if z3.is_true(a):
                    a = True
                elif z3.is_false(a):
                    a = False
            if not is_sym(a):
                if op == "&&":
                    if not a:
                        return False
                else:
                    if a:
                        return True
                b = self.val(R)
                if is_sym(b):
                    return b if z3.is_bool(b) else b != 0
                return bool(b)

            def run():
                if op == "&&":
                    if self.fork(a):
                        b = self.val(R)
                        return (b if z3.is_bool(b) else b != 0) if is_sym(b) else bool(b)
                    return False
                if self.fork(a):
                    return True
                b = self.val(R)
                return (b if z3.is_bool(b) else b != 0) if is_sym(b) else bool(b)
            return self.region(run, n)
        if op == ",":
            self.val(L)
            return self.rvalue(R)
        return self.binop(op, self.val(L), self.val(R), n)

    def e_CompoundAssignOperator(self, n):
        ref = self.rvalue(n["inner"][0])
        r = self.val(n["inner"][1])
        l = ref.get()
        if l is None:
            self.safety_fail("uninitialised read", n, "compound assignment on never-assigned value")
            l = self.havoc("double", "uninit")
        op = n["opcode"][:-1]
        lt = n["inner"][0]["type"]["qualType"]
        ct = n.get("computeResultType", {}).get("qualType", lt)
        if lt == "int" and ct == "double":
            l = self.cast("IntegralToFloating", l)
        v = self.binop(op, l, r, n)
        if lt == "int" and ct == "double":
            v = self.cast("FloatingToIntegral", v, n)
        ref.set(v)
        return ref

    def e_UnaryOperator(self, n):
        op = n["opcode"]
        if op in ("++", "--"):
            ref = self.rvalue(n["inner"][0])
            old = ref.get()
            if old is None:
                self.safety_fail("uninitialised read", n, "++/-- on never-assigned value")
                old = self.havoc("int", "uninit")
            ref.set(old + (1 if op == "++" else -1))
            return old if n.get("isPostfix") else ref
        v = self.val(n["inner"][0])
        if op == "-":
            return -v
        if op == "+":
            return v
        if op == "!":
            if is_sym(v):
                return z3.Not(v if z3.is_bool(v) else v != 0)
            return not v
        if op == "*":
            return v.target if isinstance(v, Ptr) else v
        raise Unsupported("unary " + op)

    def e_ConditionalOperator(self, n):
        c, a, b = n["inner"]
        cv = self.val(c)
        if not is_sym(cv):
            return self.rvalue(a) if cv else self.rvalue(b)
        return self.region(lambda: self.val(a) if self.truth(cv) else self.val(b), n)

    def e_ArraySubscriptExpr(self, n):
        base = self.val(n["inner"][0])
        idx = self.val(n["inner"][1])
        buf = base.target if isinstance(base, Ptr) else base
        if buf is None:
            self.safety_fail("null dereference", n, "subscript through null pointer")
            raise EndPath("null subscript")
        return ElemRef(buf, idx, self, n)

    def e_InitListExpr(self, n):
        return Vec([self.val(c) for c in n.get("inner", [])], _strip_type(n["type"]["qualType"]).replace("[", " ").split(" ")[0])

    def e_CXXNewExpr(self, n):
        cname = n["type"]["qualType"].replace("*", "").strip().split("::")[-1]
        o = self.new_obj(cname)
        self.events.append(("new", cname, o))
        return Ptr(o)

    def e_CXXDeleteExpr(self, n):
        p = self.val(n["inner"][0])
        if p is None:
            self.safety_fail("uninitialised read", n, "delete of an indeterminate pointer")
            raise EndPath("delete of indeterminate pointer")
        o = p.target
        if o is None:
            return None
        if o.freed:
            self.safety_fail("double free", n, "delete of an already deleted %s" % o.cls)
            raise EndPath("double free at " + self.where(n))
        _jlog((3, o, o.freed))
        o.freed = True
        self.events.append(("delete", o.cls, o))
        return None

    def _fill_for(self, et):
        if et.startswith("std::vector<"):
            return Vec([], et[len("std::vector<"):-1].strip())
        if et == "double":
            return Fraction(0)
        if et == "bool":
            return False
        return 0

    def e_CXXConstructExpr(self, n):
        q = _strip_type(n["type"].get("desugaredQualType", n["type"]["qualType"]))
        q0 = _strip_type(n["type"]["qualType"])
        args = [a for a in n.get("inner", []) if a.get("kind") != "CXXDefaultArgExpr"]
        for qq in (q0, q):
            if qq.startswith("std::vector<"):
                et = qq[len("std::vector<"):-1].strip()
                if et.endswith(", std::allocator<" + et.split(",")[0] + ">"):
                    et = et.split(",")[0]
                if not args:
                    return Vec([], et)
                a0 = self.val(args[0])
                if isinstance(a0, Vec):
                    c = a0.copy()
                    c.et = et if not a0.et else a0.et if a0.et in ("int", "double") and et not in ("int", "double") else et
                    return c
                if is_sym(a0):
                    raise Unsupported("vector of symbolic size at " + self.where(n))
                fill = self.val(args[1]) if len(args) > 1 else self._fill_for(et)
                return Vec([fill.copy() if isinstance(fill, Vec) else fill for _ in range(int(a0))], et)
        if q0 == "std::mt19937" or q.startswith(_MT):
            a = [self.val(x) for x in args]
            if a and isinstance(a[0], tuple):
                # copy/move construction. A COPY of a live generator (source is an lvalue: by-value parameter, `auto g = rng;`)
                # replays the draws of the original instead of continuing its sequence: recorded as an event for the legs that
                # rely on draws being independent
                if args[0].get("valueCategory") == "lvalue":
                    self.events.append(("rng_copy", self.where(n)))
                return a[0]
            tok = ("rng", a[0] if a else None, "seeded")
            self.events.append(("rng_construct", a[0] if a else None))
            return tok
        if q.startswith("std::uniform_real_distribution"):
            a = [self.val(x) for x in args]
            if a and isinstance(a[0], tuple):
                return a[0]
            return ("uiud", tuple(a))
        if q.startswith("std::poisson_distribution"):
            a = [self.val(x) for x in args]
            if a and isinstance(a[0], tuple):
                return a[0]
            return ("poisson", a[0] if a else Fraction(1), n)
        if q.startswith("std::normal_distribution"):
            a = [self.val(x) for x in args]
            if a and isinstance(a[0], tuple):
                return a[0]
            return ("normal", tuple(a), n)
        if q in ("std::string", "std::basic_string<char>") or q.startswith("std::basic_string<char"):
            return self.val(args[0]) if args else ""
        if q.startswith("std::chrono::"):
            return self.val(args[0])
        raise Unsupported("construction of %s at %s" % (q0, self.where(n)))

    e_CXXTemporaryObjectExpr = e_CXXConstructExpr

    def draw_uniform(self, lo=Fraction(0), hi=Fraction(1)):
        u = self.fresh("u")
        if not is_sym(lo) and not is_sym(hi) and Fraction(lo) == 0 and Fraction(hi) == 1:
            self.assume(z3.And(u >= 0, u < 1))
            self.events.append(("uniform", u))
            self.uniform_syms.add(u.get_id())
            return u
        # a distribution constructed with other bounds than [0, 1): the draw lies in [lo, hi) (lo itself when the interval is empty);
        # such a draw is NOT eligible for the [0,1)-product linearisation, and the 'uniform' event carries no unit-interval promise
        lo_s, hi_s = self.toreal(lo), self.toreal(hi)
        self.assume(z3.And(u >= lo_s, z3.Implies(lo_s < hi_s, u < hi_s), z3.Implies(lo_s >= hi_s, u == lo_s)))
        self.events.append(("uniform_other", u, lo, hi))
        return u

    def uniform_product(self, u, y):
        """u*y for a uniform draw u in [0,1) used only in this product: replaced by a fresh p whose
        range is exactly {u*y : 0 <= u < 1} (sound and complete for properties quantified over u;
        keeps every query linear)."""
        y = self.toreal(y)
        p = self.fresh("uprod")
        self.assume(z3.And(z3.Implies(y > 0, z3.And(p >= 0, p < y)), z3.Implies(y == 0, p == 0),
                           z3.Implies(y < 0, z3.And(p <= 0, p > y))))
        self.events.append(("uprod", u, y, p))
        return p

    def draw_poisson(self, lam, node):
        p = self.fresh("p", "int")
        lam_s = self.toreal(lam)
        # libstdc++: mean 0 returns 0 (the documented precondition mean > 0 is a separate obligation)
        self.assume(z3.And(p >= 0, p <= 2 ** 31 - 1, z3.Implies(lam_s <= 0, p == 0)))      # poisson_distribution<int>: the draw is an int
        pre, m = "unchecked", None
        if self.check_lib_pre:
            self.n_safety_checked += 1
            r, m = self.check(z3.Not(lam_s > 0))
            pre = "holds" if r == "unsat" else ("violated" if r == "sat" else "unknown")
        self.events.append(("poisson", lam, p, pre, self.where(node), m))
        return p

    def draw_normal(self, mean, sd, node):
        v = self.fresh("nrm")
        self.events.append(("normal", mean, sd, v, self.where(node)))
        return v

    def e_CXXOperatorCallExpr(self, n):
        callee = n["inner"][0]
        while callee["kind"] == "ImplicitCastExpr":
            callee = callee["inner"][0]
        name = callee["referencedDecl"]["name"]
        objr = self.rvalue(n["inner"][1])
        obj = objr.get() if hasattr(objr, "get") else objr
        if name != "operator=":
            self._stale_check(n["inner"][1])
        if name == "operator[]":
            if isinstance(obj, Vec):
                return ElemRef(obj, self.val(n["inner"][2]), self, n)
        if name == "operator=":
            v = self.val(n["inner"][2])
            if not hasattr(objr, "set"):
                raise Unsupported("operator= on non-lvalue")
            objr.set(v.copy() if isinstance(v, Vec) else v)
            return objr
        if name in ("operator==", "operator!="):
            other = self.val(n["inner"][2])
            if isinstance(obj, Vec) or isinstance(other, Vec):
                raise Unsupported("vector comparison")
            r = obj == other
            return r if name == "operator==" else not r
        if name == "operator-":
            other = self.val(n["inner"][2])
            return self.binop("-", obj, other, n)
        if name == "operator()":
            if isinstance(obj, tuple) and obj[0] == "uiud":
                a = obj[1]
                return self.draw_uniform(a[0] if len(a) > 0 else Fraction(0), a[1] if len(a) > 1 else Fraction(1))
            if isinstance(obj, tuple) and obj[0] == "poisson":
                return self.draw_poisson(obj[1], obj[2])
            if isinstance(obj, tuple) and obj[0] == "normal":
                a = obj[1]
                return self.draw_normal(a[0] if a else Fraction(0), a[1] if len(a) > 1 else Fraction(1), obj[2])
        raise Unsupported("operator %s on %s at %s" % (name, type(obj).__name__, self.where(n)))

    def _vec_method(self, obj, name, args, n):
        if name == "size":
            return len(obj.elems)
        if name == "empty":
            return len(obj.elems) == 0
        if name == "clear":
            obj.set_elems([])
            return None
        if name == "push_back":
            v = self.val(args[0])
            obj.set_elems(obj.elems + [v.copy() if isinstance(v, Vec) else v])
            return None
        if name == "resize":
            nn = self.val(args[0])
            if is_sym(nn):
                raise Unsupported("resize to symbolic size at " + self.where(n))
            nn = int(nn)
            real_args = [a for a in args[1:] if a.get("kind") != "CXXDefaultArgExpr"]
            fill = self.val(real_args[0]) if real_args else self._fill_for(obj.et)
            if obj.et == "double" and isinstance(fill, int) and not isinstance(fill, bool):
                fill = Fraction(fill)
            new = list(obj.elems[:nn])
            while len(new) < nn:
                new.append(fill.copy() if isinstance(fill, Vec) else fill)
            obj.set_elems(new)
            return None
        if name == "assign":
            real_args = [a for a in args if a.get("kind") != "CXXDefaultArgExpr"]
            if len(real_args) != 2:
                raise Unsupported("vector::assign with %d arguments at %s" % (len(real_args), self.where(n)))
            nn = self.val(real_args[0])
            if is_sym(nn):
                raise Unsupported("assign with symbolic size at " + self.where(n))
            fill = self.val(real_args[1])
            if obj.et == "double" and isinstance(fill, int) and not isinstance(fill, bool):
                fill = Fraction(fill)
            obj.set_elems([fill.copy() if isinstance(fill, Vec) else fill for _ in range(int(nn))])
            return None
        if name in ("at",):
            return ElemRef(obj, self.val(args[0]), self, n)
        if name == "back":
            return ElemRef(obj, len(obj.elems) - 1, self, n)
        if name == "front":
            return ElemRef(obj, 0, self, n)
        if name == "data":
            return Ptr(obj)
        raise Unsupported("vector::%s at %s" % (name, self.where(n)))

    def e_CXXMemberCallExpr(self, n):
        callee = self.rvalue(n["inner"][0])
        args = n["inner"][1:]
        if not (isinstance(callee, tuple) and callee[0] == "method"):
            raise Unsupported("member call through %r at %s" % (callee, self.where(n)))
        _, obj, name = callee
        if isinstance(obj, Vec):
            return self._vec_method(obj, name, args, n)
        if isinstance(obj, Obj):
            m = self.P.methods_of(obj.cls).get(name)
            if m is None:
                raise Unsupported("method %s of %s" % (name, obj.cls))
            argv = [self.rvalue(a) for a in args]
            if name in self.summarise:
                return self.region(lambda: self.call(m, argv, this=obj), n)
            return self.call(m, argv, this=obj)
        if isinstance(obj, tuple) and obj[0] == "dur" and name == "count":
            return obj[1]
        if isinstance(obj, str):
            # std::string is modelled by an immutable Python str (concrete text only)
            if name in ("c_str", "data"):
                return obj
            if name == "empty":
                return len(obj) == 0
            if name in ("size", "length"):
                return len(obj)
        raise Unsupported("member call %s on %s at %s" % (name, type(obj).__name__, self.where(n)))

    def e_CallExpr(self, n):
        callee = n["inner"][0]
        while callee["kind"] == "ImplicitCastExpr":
            callee = callee["inner"][0]
        d = callee.get("referencedDecl")
        if d is None:
            raise Unsupported("indirect call at " + self.where(n))
        name = d["name"]
        args = [a for a in n["inner"][1:] if a.get("kind") != "CXXDefaultArgExpr"]
        fd = self.P.by_id.get(d["id"])
        if (fd is None or not any(c.get("kind") == "CompoundStmt" for c in fd.get("inner", []))) and name in self.P.funcs:
            # the call names a forward declaration: use the definition of that function
            cands = [f for f in self.P.funcs[name] if any(c.get("kind") == "CompoundStmt" for c in f.get("inner", []))]
            if len(cands) == 1:
                fd = cands[0]
        if fd is not None and any(c.get("kind") == "CompoundStmt" for c in fd.get("inner", [])):
            argv = [self.rvalue(a) for a in args]
            if name in self.summarise:
                return self.region(lambda: self.call(fd, argv), n)
            return self.call(fd, argv)
        if name == "now":
            c = self.fresh("clock", "int")
            prev = [e for e in self.events if e[0] == "clock"]
            self.assume(c >= (prev[-1][1] if prev else 0))
            self.events.append(("clock", c))
            return ("time", c)
        if name == "duration_cast":
            return self.val(args[0])
        a = [self.val(x) for x in args]
        return self.libcall(name, a, n)

    def libcall(self, name, a, n):
        if not a and name in ("epsilon", "max", "min", "lowest", "infinity"):
            # std::numeric_limits<T>::...() : exact binary64 / 32-bit int constants
            ty = n.get("type", {}).get("qualType", "")
            if "double" in ty:
                big = (Fraction(2) - Fraction(1, 2 ** 52)) * Fraction(2) ** 1023
                if name == "infinity":
                    raise Unsupported("numeric_limits<double>::infinity() at " + self.where(n))
                return {"epsilon": Fraction(1, 2 ** 52), "max": big, "min": Fraction(1, 2 ** 1022), "lowest": -big}[name]
            if ty in ("int", "const int"):
                return {"epsilon": 0, "max": 2 ** 31 - 1, "min": -2 ** 31, "lowest": -2 ** 31}[name]
            raise Unsupported("numeric_limits of %s at %s" % (ty, self.where(n)))
        if name in ("_mm_getcsr", "fegetround", "fegetenv", "_controlfp", "_control87"):
            # reading the floating-point environment: an opaque value (the exact-real model has no such state)
            self.events.append(("fpenv_read", name, self.where(n)))
            return self.fresh("fpenv", "int")
        if name in ("_mm_setcsr", "fesetround", "fesetenv", "feholdexcept", "feupdateenv", "_MM_SET_FLUSH_ZERO_MODE", "_MM_SET_DENORMALS_ZERO_MODE", "_MM_SET_ROUNDING_MODE"):
            # CHANGING the floating-point environment (rounding mode, flush-to-zero ...): binary64 results of the code that follows
            # depend on it - an event for the legs that claim bit-identical results
            self.events.append(("fpenv_write", name, self.where(n)))
            return 0
        if name == "pow":
            x, y = a
            if is_sym(y):
                raise Unsupported("pow with symbolic exponent at " + self.where(n))
            y = Fraction(y)
            if y.denominator == 1:
                k = int(y)
                r = Fraction(1)
                for _ in range(abs(k)):
                    r = r * x
                if k >= 0:
                    return r
                if not is_sym(r) and r == 0:
                    self.safety_fail("floating division by zero", n, "pow(0, %d)" % k)
                    return self.havoc("double", "pow(0,neg)")
                return 1 / r
            if abs(float(y) - 1.0 / 3.0) < 1e-15:
                return self.cbrt(x)
            raise Unsupported("pow with non-integer exponent %s at %s" % (y, self.where(n)))
        if name == "floor":
            x = a[0]
            if is_sym(x):
                return z3.ToReal(z3.ToInt(self.toreal(x)))
            return Fraction(Fraction(x).__floor__())
        if name in ("abs", "fabs"):
            x = a[0]
            return z3.If(x >= 0, x, -x) if is_sym(x) else abs(x)
        if name == "max":
            x, y = a
            if is_sym(x) or is_sym(y):
                x, y = self.toreal(x), self.toreal(y)
                return z3.If(x >= y, x, y)
            return max(x, y)
        if name == "min":
            x, y = a
            if is_sym(x) or is_sym(y):
                x, y = self.toreal(x), self.toreal(y)
                return z3.If(x <= y, x, y)
            return min(x, y)
        if name == "log":
            x = self.toreal(a[0])
            f = z3.Function("log", z3.RealSort(), z3.RealSort())
            self.assume(z3.Implies(x > 1, f(x) > 0))
            self.assume(z3.Implies(x == 1, f(x) == 0))
            self.events.append(("log", x))
            return f(x)
        if name == "sqrt":
            x = a[0]
            if not is_sym(x):
                import math
                r = Fraction(math.isqrt(int(x))) if Fraction(x).denominator == 1 else None
                if r is not None and r * r == x:
                    return r
            x = self.toreal(x)
            s = self.fresh("sqrt")
            self.assume(z3.Implies(x >= 0, z3.And(s >= 0, s * s == x)))
            return s
        raise Unsupported("library call %s at %s" % (name, self.where(n)))

    def cbrt(self, x):
        if not is_sym(x):
            x = Fraction(x)
            for cand in (round(float(x) ** (1.0 / 3.0), 9),):
                c = Fraction(cand).limit_denominator(10 ** 6)
                if c ** 3 == x:
                    return c
        xs = self.toreal(x)
        for term, root in getattr(self, "cbrt_known", ()):
            if z3.eq(z3.simplify(xs), z3.simplify(term)):
                return root       # harness-supplied exact cube root (the volume was given as h*h*h)
        key = ("cbrt", str(xs))
        memo = getattr(self, "_cbrt_memo", None)
        if memo is None:
            memo = self._cbrt_memo = {}
        if key in memo:
            return memo[key]
        e = self.fresh("cbrt")
        self.assume(e * e * e == xs)
        self.assume(z3.Implies(xs > 0, e > 0))
        memo[key] = e
        return e


# ------------------------------------------------------------------------------- path explorer
class PathResult:
    __slots__ = ("I", "value", "ended", "trace")

    def __init__(self, I, value, ended, trace):
        self.I, self.value, self.ended, self.trace = I, value, ended, trace


def explore(prog, body, max_paths=2000, budget_s=600, **kw):
    """Runs body(I) on a fresh interpreter for every feasible path (trace-replay DFS).
    Yields PathResult; `ended` is None for completed paths, else the EndPath reason."""
    work = [[]]
    t0 = time.time()
    n = 0
    while work:
        prefix = work.pop()
        I = Interp(prog, **kw)
        I.ctx = ForkCtx(prefix, False)
        ended, value = None, None
        try:
            value = body(I)
        except EndPath as e:
            ended = e.reason if not isinstance(e, UnwindBound) else "UNWIND: " + e.reason
        except Unsupported as e:
            # after a failed READ obligation the havoc'd value may reach constructs the interpreter does not model
            # (e.g. a symbolic index into a vector of vectors): the recorded safety failure is the result of this path
            if not I.safety:
                raise
            ended = "ABORTED after a failed safety obligation (%s)" % str(e)[:120]
        work.extend(I.ctx.alts)
        n += 1
        yield PathResult(I, value, ended, I.ctx.trace)
        if n >= max_paths or time.time() - t0 > budget_s:
            if work:
                yield PathResult(None, None, "EXPLORATION-BUDGET: %d paths left unexplored" % len(work), None)
            return
