"""Shared protocol: tiers, scratch space, obligations, evidence, known findings, exit codes.

Exit codes (DESIGN.md section 3): 0 = everything explored held (inconclusive obligations are listed
in the evidence), 1 = at least one *replayed* violation that known_findings.json does not list,
2 = harness error (translator validation failed, unsupported construct, counterexample that does
not replay, tool missing).
"""
import atexit
import hashlib
import json
import os
import shutil
import sys
import tempfile
import time
import traceback

VERIF = os.path.dirname(os.path.dirname(os.path.abspath(__file__)))
REPO = os.environ.get("STRENGTHS_REPO", "/repo")
SRC = os.path.join(REPO, "src")
ENGINE_SRC = os.path.join(SRC, "strengths", "engines", "strengths_engine", "src")
# overridable so that a run against a scratch copy (STRENGTHS_REPO=...) does not overwrite the evidence of the real tree
EVIDENCE_DIR = os.environ.get("VERIF_EVIDENCE_DIR") or os.path.join(VERIF, "evidence")
REPLAY_DIR = os.environ.get("VERIF_REPLAY_DIR") or os.path.join(VERIF, "replays")
KNOWN_FINDINGS = os.path.join(VERIF, "known_findings.json")

HOLDS, VIOLATED, INCONCLUSIVE = "holds", "violated", "inconclusive"


class HarnessError(Exception):
    """The machinery itself failed (exit 2); never a verdict about the code."""


_scratch = None


def scratch():
    """A private scratch directory outside /repo and /verif, removed at exit (workers share their parent's)."""
    global _scratch
    if _scratch is None and os.environ.get("VERIF_SHARED_SCRATCH"):
        _scratch = os.environ["VERIF_SHARED_SCRATCH"]
    if _scratch is None:
        base = os.environ.get("VERIF_SCRATCH_BASE") or tempfile.gettempdir()
        _scratch = tempfile.mkdtemp(prefix="strengths_verif_", dir=base)
        atexit.register(shutil.rmtree, _scratch, True)
    return _scratch


class flock:
    """Inter-process lock on a file in the shared scratch directory (build steps are done once)."""

    def __init__(self, name):
        self.path = os.path.join(scratch(), name + ".lock")

    def __enter__(self):
        import fcntl
        self.fh = open(self.path, "w")
        fcntl.flock(self.fh, fcntl.LOCK_EX)
        return self

    def __exit__(self, *a):
        import fcntl
        fcntl.flock(self.fh, fcntl.LOCK_UN)
        self.fh.close()


def file_hash(path):
    try:
        return hashlib.sha256(open(path, "rb").read()).hexdigest()[:16]
    except OSError:
        return "missing"


def jsonable(x):
    """Best-effort conversion of solver values / fractions to JSON-native data."""
    from fractions import Fraction
    if isinstance(x, (str, int, bool)) or x is None:
        return x
    if isinstance(x, float):
        return x
    if isinstance(x, Fraction):
        return str(x)
    if isinstance(x, dict):
        return {str(k): jsonable(v) for k, v in x.items()}
    if isinstance(x, (list, tuple, set)):
        return [jsonable(v) for v in x]
    return str(x)


class Recorder:
    """Collects what one check run did; writes evidence; decides the exit code."""

    def __init__(self, pid, tier, seed, level="other"):
        self.pid, self.tier, self.seed, self.level = pid, tier, seed, level
        self.t0 = time.time()
        self.obligs = []          # dicts: name, status, detail, solver_s
        self.violations = []      # dicts: signature, what, replay (payload), replayed
        self.assumptions = []
        self.functions = {}       # qualified name -> source hash / location
        self.bounds = {}
        self.samples = []
        self.structures = []
        self.notes = []
        self.solver_s = 0.0
        self.queries = {"unsat": 0, "sat": 0, "unknown": 0}
        self.paths = 0
        self.vacuity = []
        self.harness_errors = []
        self.extra = {}

    # ---- recording ---------------------------------------------------------------------------
    def assume(self, text):
        if text not in self.assumptions:
            self.assumptions.append(text)

    def encoded(self, name, where=""):
        self.functions[name] = where

    def bound(self, key, value):
        self.bounds[key] = value

    def structure(self, desc):
        if desc not in self.structures:
            self.structures.append(desc)

    def sample(self, s, cap=12):
        if len(self.samples) < cap:
            self.samples.append(jsonable(s))

    def query(self, result, secs=0.0):
        self.queries[result if result in self.queries else "unknown"] += 1
        self.solver_s += secs

    def oblig(self, name, status, detail="", secs=0.0, structure=None):
        self.obligs.append({"name": name, "status": status, "detail": str(detail)[:400],
                            "solver_s": round(secs, 3), "structure": structure})

    def vacuity_witness(self, name, ok, detail=""):
        self.vacuity.append({"harness": name, "reachable": bool(ok), "detail": str(detail)[:200]})
        if not ok:
            self.harness_errors.append("vacuity: harness %s cannot reach its assertion (%s)" % (name, detail))

    def violation(self, signature, what, replay=None, replayed=True):
        """A violation that has ALREADY been replayed against the real code (replayed=True), or a
        candidate that could not be replayed (replayed=False => harness error, never VIOLATION)."""
        for v in self.violations:
            if v["signature"] == signature:
                v["count"] += 1
                if replayed and not v["replayed"]:      # a later instance of the same violation class did replay
                    v.update({"what": what, "replay": jsonable(replay), "replayed": True})
                return
        self.violations.append({"signature": signature, "what": what, "replay": jsonable(replay),
                                "replayed": bool(replayed), "count": 1})

    def error(self, text):
        self.harness_errors.append(text)

    # ---- parallel work -----------------------------------------------------------------------
    def export(self):
        return {k: getattr(self, k) for k in ("obligs", "violations", "assumptions", "functions", "bounds", "samples", "structures",
                                              "notes", "solver_s", "queries", "paths", "vacuity", "harness_errors", "extra")}

    def merge(self, d):
        self.obligs += d["obligs"]
        for v in d["violations"]:
            for _ in range(v.get("count", 1)):
                self.violation(v["signature"], v["what"], v["replay"], v["replayed"])
        for a in d["assumptions"]:
            self.assume(a)
        self.functions.update(d["functions"])
        self.bounds.update(d["bounds"])
        for sm in d["samples"]:
            self.sample(sm)
        for st in d["structures"]:
            self.structure(st)
        self.notes += d["notes"]
        self.solver_s += d["solver_s"]
        for k, v in d["queries"].items():
            self.queries[k] = self.queries.get(k, 0) + v
        self.paths += d["paths"]
        self.vacuity += d["vacuity"]
        self.harness_errors += d["harness_errors"]
        for k, v in d["extra"].items():
            if isinstance(v, list):
                cur = self.extra.setdefault(k, [])
                cur += [x for x in v if x not in cur]
            elif isinstance(v, (int, float)) and not isinstance(v, bool):
                self.extra[k] = self.extra.get(k, 0) + v
            else:
                self.extra.setdefault(k, v)

    def parallel(self, worker, items, procs=None, timeout_s=None, item_budget_s=None):
        """Runs worker(sub_recorder, item) for every item, each in a FRESH python process (z3 state does
        not accumulate and is never forked), and merges the results. A worker that dies or times
        out is a harness error (never a pass). worker must be a module-level function."""
        import subprocess
        from concurrent.futures import ThreadPoolExecutor
        procs = procs or min(len(items), int(os.environ.get("VERIF_PROCS", "0") or 0) or os.cpu_count() or 4)
        if os.environ.get("VERIF_INPROCESS") == "1" or not items:
            for it in items:
                worker(self, it)
            return
        sd = scratch()
        env = dict(os.environ, VERIF_SHARED_SCRATCH=sd, VERIF_TIER=self.tier, VERIF_SEED=str(self.seed),
                   PYTHONPATH=VERIF + os.pathsep + SRC + os.pathsep + os.environ.get("PYTHONPATH", ""))

        def one(k_it):
            k, it = k_it
            out = os.path.join(sd, "w_%s_%d_%d.json" % (self.pid, os.getpid(), k))
            cmd = [sys.executable, "-m", "vt.worker", worker.__module__, worker.__name__, self.pid, json.dumps(it), out]
            try:
                r = subprocess.run(cmd, cwd=VERIF, env=env, capture_output=True, text=True, timeout=item_budget_s or timeout_s or 3000)
            except subprocess.TimeoutExpired:
                return it, None, "timeout" if not item_budget_s else "BUDGET"
            if not os.path.exists(out):
                return it, None, "exit %d: %s" % (r.returncode, (r.stderr or "")[-400:])
            d = json.load(open(out))
            os.unlink(out)
            return it, d, None

        with ThreadPoolExecutor(max_workers=procs) as ex:
            for it, d, err in ex.map(one, list(enumerate(items))):
                if d is None and err == "BUDGET":
                    # a stated per-item time budget: the item is inconclusive (listed), not a failure of the machinery
                    self.oblig("work item %s" % (str(it)[:160],), INCONCLUSIVE, "time budget of %ds exceeded" % item_budget_s, item_budget_s, str(it)[:80])
                elif d is None:
                    self.error("worker for %r failed: %s" % (it, err))
                else:
                    self.merge(d)

    # ---- finishing ---------------------------------------------------------------------------
    def finish(self):
        known = {"findings": [], "fixed": []}
        if os.path.exists(KNOWN_FINDINGS):
            known = json.load(open(KNOWN_FINDINGS))
        known_sigs = {f["signature"]: f for f in known.get("findings", []) if f.get("property") == self.pid}
        new_viol = []
        os.makedirs(os.path.join(REPLAY_DIR, self.pid), exist_ok=True)
        n_known = 0
        for v in self.violations:
            if not v["replayed"]:
                self.harness_errors.append("counterexample did not replay on the real code: %s (%s)" % (v["signature"], v["what"]))
                continue
            if v["signature"] in known_sigs:
                n_known += 1
                print("KNOWN-FINDING: property=%s %s" % (self.pid, known_sigs[v["signature"]].get("what", v["what"])))
                continue
            h = hashlib.sha256(v["signature"].encode()).hexdigest()[:12]
            path = os.path.join(REPLAY_DIR, self.pid, "%s.json" % h)
            json.dump({"property": self.pid, "signature": v["signature"], "what": v["what"], "case": v["replay"]},
                      open(path, "w"), indent=1)
            new_viol.append((v, path))
        # safety net: an obligation recorded as violated must have led to a reported violation (replayed, known or not); if a leg
        # forgot to report one, the run is a harness error - never a silent pass
        if any(o["status"] == VIOLATED for o in self.obligs) and not self.violations:
            bad = [o for o in self.obligs if o["status"] == VIOLATED][:3]
            self.harness_errors.append("violated obligation(s) without a reported violation: " + "; ".join("%s [%s]" % (o["name"][:120], (o.get("structure") or "")[:60]) for o in bad))
        n_ob = len(self.obligs)
        n_holds = sum(1 for o in self.obligs if o["status"] == HOLDS)
        n_inc = [o for o in self.obligs if o["status"] == INCONCLUSIVE]
        n_bad = [o for o in self.obligs if o["status"] == VIOLATED]
        distinct = len({(o["name"], o.get("structure")) for o in self.obligs})
        cov = {
            "explanation": ("solver-based bounded check: the functions listed under functions_encoded are executed "
                            "symbolically from /repo's current source; each obligation is an SMT query (or a CrossHair "
                            "path-exhaustive search) whose 'unsat'/'Confirmed' verdict covers every value inside the stated "
                            "bounds; 'inconclusive' entries (timeouts, unknown, non-exhausted path trees) are not success."),
            "functions_encoded": self.functions,
            "bounds": self.bounds,
            "structures": self.structures[:60],
            "n_structures": len(self.structures),
            "obligations": n_ob,
            "discharged": n_holds,
            "inconclusive": len(n_inc),
            "violated_obligations": len(n_bad),
            "inconclusive_list": [{"name": o["name"], "structure": o["structure"], "detail": o["detail"]} for o in n_inc][:40],
            "violated_list": [{"name": o["name"], "structure": o["structure"], "detail": o["detail"]} for o in n_bad][:40],
            "evaluations": max(n_ob, 1),
            "distinct_nontrivial": max(distinct, 0),
            "rule": "one evaluation = one solver-decided obligation (query or CrossHair condition); distinct = distinct (obligation name, structure) pairs",
            "samples": self.samples or [o for o in self.obligs[:5]],
            "queries": self.queries,
            "paths": self.paths,
            "solver_s": round(self.solver_s, 2),
            "vacuity_witnesses": self.vacuity[:40],
            "slowest_obligations": [[o["solver_s"], o["name"][:120]] for o in sorted(self.obligs, key=lambda o: -o["solver_s"])[:8]],
            "known_findings_matched": n_known,
            "new_violations": [v["signature"] for v, _ in new_viol],
            "harness_errors": self.harness_errors[:20],
            "notes": self.notes[:40],
            "exhaustive": False,
        }
        cov.update(self.extra)
        ev = {"property_id": self.pid, "tier": self.tier, "seed": int(self.seed), "level": self.level,
              "coverage": cov, "assumptions": self.assumptions, "wall_s": round(time.time() - self.t0, 2),
              "violations": len(new_viol)}
        os.makedirs(EVIDENCE_DIR, exist_ok=True)
        tmp = os.path.join(EVIDENCE_DIR, ".%s.json.tmp" % self.pid)
        json.dump(ev, open(tmp, "w"), indent=1, default=str)
        os.replace(tmp, os.path.join(EVIDENCE_DIR, "%s.json" % self.pid))
        for v, path in new_viol:
            print("VIOLATION property=%s replay=%s" % (self.pid, path))
            print("  what: %s" % v["what"])
        print("[%s %s] obligations=%d discharged=%d inconclusive=%d violations=%d known=%d harness_errors=%d wall=%.1fs"
              % (self.pid, self.tier, n_ob, n_holds, len(n_inc), len(new_viol), n_known, len(self.harness_errors),
                 time.time() - self.t0))
        if new_viol:
            return 1
        if self.harness_errors:
            for e in self.harness_errors[:10]:
                print("HARNESS-ERROR: %s" % e)
            return 2
        return 0


def _run_worker(worker, pid, tier, seed, item):
    rec = Recorder(pid, tier, seed)
    try:
        worker(rec, item)
    except HarnessError as e:
        rec.error("HarnessError in %r: %s" % (item, e))
    except Exception as e:  # noqa
        rec.error("unexpected %s in %r: %s\n%s" % (type(e).__name__, item, e, traceback.format_exc()[-1200:]))
    rec.extra.setdefault("item_times", []).append([round(time.time() - rec.t0, 1), str(item)[:160]])
    d = rec.export()
    for v in d["violations"]:
        v["replay"] = jsonable(v["replay"])
    return json.loads(json.dumps(d, default=str))


def tier_from_env(default="quick"):
    return os.environ.get("VERIF_TIER", default)


def seed_from_env():
    try:
        return int(os.environ.get("VERIF_SEED", "0"))
    except ValueError:
        return 0


def run_property(pid, fn, tier, seed):
    rec = Recorder(pid, tier, seed)
    try:
        fn(rec)
    except HarnessError as e:
        rec.error("HarnessError: %s" % e)
    except Exception as e:  # noqa
        rec.error("unexpected %s: %s\n%s" % (type(e).__name__, e, traceback.format_exc()[-1500:]))
    return rec.finish()
