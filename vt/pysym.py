"""py-sym: run CrossHair (real-float driver) on harness functions, one process per condition;
map verdicts; replay counterexamples in plain CPython; keep a reachability twin per condition."""
import ast
import os
import re
import subprocess
import sys
import time
from concurrent.futures import ThreadPoolExecutor

from .common import VERIF, SRC, scratch, HOLDS, VIOLATED, INCONCLUSIVE

DRIVER = os.path.join(VERIF, "vt", "chreal.py")
_ENV = None


def _env():
    global _ENV
    if _ENV is None:
        _ENV = dict(os.environ, PYTHONPATH=(GEN_DIR + os.pathsep if GEN_DIR else "") + VERIF + os.pathsep + SRC + os.pathsep + os.environ.get("PYTHONPATH", ""), PYTHONHASHSEED="0")
    return _ENV


GEN_DIR = None


def gen_dir():
    """Directory (on PYTHONPATH of the CrossHair processes) for harness modules generated at check time."""
    global GEN_DIR
    if GEN_DIR is None:
        GEN_DIR = os.path.join(scratch(), "hgen_%d" % os.getpid())
        os.makedirs(GEN_DIR, exist_ok=True)
        global _ENV
        _ENV = None
    return GEN_DIR


def write_module(name, text):
    with open(os.path.join(gen_dir(), name + ".py"), "w") as fh:
        fh.write(text)
    return name


def _functions(module):
    path = os.path.join(VERIF, *module.split(".")) + ".py"
    if not os.path.exists(path) and GEN_DIR:
        path = os.path.join(GEN_DIR, module + ".py")
    tree = ast.parse(open(path).read())
    return {n.name: n for n in tree.body if isinstance(n, ast.FunctionDef)}, path


def _twin_module(module, names):
    """Generate reachability twins: same signature and preconditions, post: False after calling the harness."""
    fns, path = _functions(module)
    lines = ["from %s import *" % module, "from %s import %s" % (module, ", ".join(sorted(names))), ""]
    for nm in names:
        f = fns[nm]
        doc = ast.get_docstring(f) or ""
        pres = [l.strip() for l in doc.splitlines() if l.strip().startswith("pre:")]
        args = ast.unparse(f.args)
        call = ", ".join(a.arg for a in f.args.args)
        lines += ["def %s__reach(%s) -> bool:" % (nm, args), '    """'] + ["    " + p for p in pres] + ["    post: not _", '    """',
                  "    %s(%s)" % (nm, call), "    return True", ""]
    tdir = os.path.join(scratch(), "twins")
    os.makedirs(tdir, exist_ok=True)
    tname = "twin_" + module.replace(".", "_")
    with open(os.path.join(tdir, tname + ".py"), "w") as fh:
        fh.write("\n".join(lines))
    return tdir, tname


_CALL = re.compile(r"when calling (\w+)\((.*?)\)\s*(\(which returns.*)?$")


def _crosshair(target, timeout, extra_path=None, per_path=None):
    env = dict(_env())
    if extra_path:
        env["PYTHONPATH"] = extra_path + os.pathsep + env["PYTHONPATH"]
    cmd = [sys.executable, DRIVER, "check", "--report_all", "--per_condition_timeout", str(timeout)]
    if per_path:
        cmd += ["--per_path_timeout", str(per_path)]
    cmd.append(target)
    t0 = time.time()
    try:
        r = subprocess.run(cmd, capture_output=True, text=True, env=env, cwd=VERIF, timeout=timeout * 2 + 120)
        out = r.stdout + r.stderr
    except subprocess.TimeoutExpired as e:
        out = "TIMEOUT " + str(e)
    return out, time.time() - t0


def _classify(out):
    lines = [l for l in out.splitlines() if ": info:" in l or ": error:" in l]
    if any(": error:" in l for l in lines):
        l = [l for l in lines if ": error:" in l][0]
        return "error", l.split(": error:", 1)[1].strip()
    if any("Confirmed over all paths" in l for l in lines):
        return "confirmed", ""
    if any("Unable to meet precondition" in l for l in lines):
        return "noprecond", ""
    if any("Not confirmed" in l for l in lines):
        return "notconfirmed", ""
    return "other", out[-400:]


def replay(module, fname, argtext):
    """Re-run the harness function on the counterexample in plain CPython (IEEE floats, no CrossHair)."""
    code = ("import sys\nfrom %s import *\nfrom %s import %s as _f\n"
            "try:\n    r = _f(%s)\n    print('REPLAY-RESULT', bool(r))\nexcept Exception as e:\n    print('REPLAY-RAISED', type(e).__name__, str(e)[:200])\n") % (module, module, fname, argtext)
    r = subprocess.run([sys.executable, "-c", code], capture_output=True, text=True, env=_env(), cwd=VERIF, timeout=300)
    out = r.stdout.strip().splitlines()
    last = out[-1] if out else (r.stderr[-300:])
    if last.startswith("REPLAY-RESULT"):
        return ("False" in last), last
    if last.startswith("REPLAY-RAISED"):
        return True, last
    return False, "replay failed: " + last


def run_conditions(rec, module, conds, default_timeout=60, twins=True, procs=None):
    """conds: list of dicts: fn (harness function), what (obligation text), sig (violation signature), timeout, structure."""
    procs = procs or int(os.environ.get("VERIF_PROCS", "0") or 0) or os.cpu_count() or 4
    names = [c["fn"] for c in conds]
    fns, _ = _functions(module)
    missing = [n for n in names if n not in fns]
    if missing:
        rec.error("harness functions missing in %s: %s" % (module, missing))
        conds = [c for c in conds if c["fn"] in fns]
    tdir, tname = _twin_module(module, sorted({c["fn"] for c in conds})) if twins and conds else (None, None)

    def job(c):
        to = c.get("timeout", default_timeout)
        out, secs = _crosshair("%s.%s" % (module, c["fn"]), to, per_path=c.get("per_path"))
        kind, detail = _classify(out)
        tw = None
        if twins and kind in ("confirmed", "noprecond"):
            o2, s2 = _crosshair("%s.%s__reach" % (tname, c["fn"]), min(to, 60), extra_path=tdir)
            k2, d2 = _classify(o2)
            tw = (True if (k2 == "error" and "false when calling" in d2) else (False if k2 == "confirmed" else None), k2 + " " + d2[:120])
        return c, kind, detail, secs, tw

    with ThreadPoolExecutor(max_workers=procs) as ex:
        results = list(ex.map(job, conds))
    for c, kind, detail, secs, tw in results:
        name = c.get("what", c["fn"])
        structure = c.get("structure", module)
        rec.query({"confirmed": "unsat", "error": "sat"}.get(kind, "unknown"), secs)
        if kind == "confirmed":
            if tw is not None and tw[0] is not None:
                rec.vacuity_witness("%s.%s" % (module, c["fn"]), tw[0], tw[1])
            if tw is None or tw[0]:
                rec.oblig(name, HOLDS, "CrossHair: Confirmed over all paths (real-float model)", secs, structure)
            else:
                rec.oblig(name, INCONCLUSIVE, "confirmed, but no reachability witness was obtained for the twin (%s)" % tw[1], secs, structure)
        elif kind == "error":
            # CrossHair appends " with crosshair.patch_to_return({...})" when the path went through an intercepted standard-library call
            # (random, time): the replay runs the plain function (real randomness), so that part is dropped
            m = _CALL.search(re.sub(r"\s+with crosshair\.patch_to_return\(\{.*?\}\)", "", detail))
            if not m:
                rec.oblig(name, INCONCLUSIVE, "unparsed CrossHair error: " + detail[:200], secs, structure)
                continue
            ok, rtxt = replay(module, m.group(1), m.group(2))
            rec.oblig(name, VIOLATED if ok else INCONCLUSIVE, detail[:300] + " | " + rtxt, secs, structure)
            if ok:
                rec.violation(c.get("sig", "%s.%s" % (module, c["fn"])), "%s: counterexample %s(%s) -> %s" % (c.get("viol", name), m.group(1), m.group(2)[:300], rtxt),
                              {"module": module, "function": m.group(1), "args": m.group(2), "replay": rtxt}, replayed=True)
            else:
                rec.notes.append("CrossHair counterexample for %s.%s did not reproduce in CPython (spurious under the real-float model): %s" % (module, c["fn"], detail[:200]))
        elif kind == "noprecond":
            rec.oblig(name, INCONCLUSIVE, "Unable to meet precondition", secs, structure)
        elif kind == "notconfirmed":
            rec.oblig(name, INCONCLUSIVE, "Not confirmed within %ss (path tree not exhausted)" % c.get("timeout", default_timeout), secs, structure)
        else:
            rec.oblig(name, INCONCLUSIVE, "CrossHair output not understood: " + detail[-300:], secs, structure)
    return results


def run_enumerated(rec, module, conds, procs=None, budget_s=600):
    """conds: dicts with fn, what, sig, box {arg: (lo, hi)}, pre [python expressions over the args].
    Exhaustive plain evaluation of the finite box (no solver): recorded as such in the evidence."""
    import json as _json
    procs = procs or int(os.environ.get("VERIF_PROCS", "0") or 0) or os.cpu_count() or 4

    def job(c):
        t0 = time.time()
        cmd = [sys.executable, "-m", "vt.enumrun", module, c["fn"], _json.dumps(c["box"]), _json.dumps(c.get("pre", [])), str(c.get("budget", budget_s))]
        try:
            r = subprocess.run(cmd, capture_output=True, text=True, env=_env(), cwd=VERIF, timeout=c.get("budget", budget_s) + 120)
            out = (r.stdout.strip().splitlines() or [r.stderr[-300:]])[-1]
        except subprocess.TimeoutExpired:
            out = "TIMEOUT"
        return c, out, time.time() - t0

    with ThreadPoolExecutor(max_workers=procs) as ex:
        results = list(ex.map(job, conds))
    tot = 0
    for c, out, secs in results:
        name = c.get("what", c["fn"]) + " [exhaustive enumeration of the finite parameter box]"
        structure = c.get("structure", module)
        if out.startswith("OK"):
            n = int(out.split()[1])
            tot += n
            rec.oblig(name, HOLDS if n > 0 else INCONCLUSIVE, "%d points evaluated" % n, secs, structure)
        elif out.startswith("FAIL"):
            rec.oblig(name, VIOLATED, out[:300], secs, structure)
            try:
                point = _json.loads(out[5:out.index("}") + 1])
            except Exception:  # noqa
                point = {}
            argtext = ", ".join("%s=%r" % kv for kv in point.items())
            ok, rtxt = replay(module, c["fn"], argtext)
            if not ok:
                # the failure may depend on what was evaluated before in the same process (hidden state): replay the whole sweep
                c2, out2, _ = job(c)
                ok = out2 == out
                rtxt = "single call passes, but the sweep in a fresh process fails again at the same point: the result depends on earlier calls (%s)" % out2[:120] if ok else rtxt
            rec.violation(c.get("sig", "%s.%s" % (module, c["fn"])), "%s: counterexample %s(%s) -> %s" % (c.get("viol", c.get("what", c["fn"])), c["fn"], argtext, rtxt),
                          {"module": module, "function": c["fn"], "args": point, "replay": rtxt}, replayed=ok)
        else:
            rec.oblig(name, INCONCLUSIVE, out[:200], secs, structure)
    rec.extra["enumerated_points"] = rec.extra.get("enumerated_points", 0) + tot
    return results


_RNG1 = re.compile(r"(-?\d+)\s*<=\s*(\w+)\s*(<=|<)\s*(-?\d+)")


def box_from_source(module, fn):
    """(box, pre expressions) if every parameter of the harness function is an int with a literal range in its preconditions, else None."""
    fns, _ = _functions(module)
    f = fns[fn]
    args = [(a.arg, ast.unparse(a.annotation) if a.annotation else "") for a in f.args.args]
    if not args or any(t != "int" for _, t in args):
        return None
    doc = ast.get_docstring(f) or ""
    pres = [l.strip()[4:].strip() for l in doc.splitlines() if l.strip().startswith("pre:")]
    box = {}
    for p in pres:
        if p.startswith("not ") or p.startswith("not("):
            continue
        for lo, name, op, hi in _RNG1.findall(p):
            hi = int(hi) - (1 if op == "<" else 0)
            if name in box:
                box[name] = (max(box[name][0], int(lo)), min(box[name][1], hi))
            else:
                box[name] = (int(lo), hi)
    for a, _ in args:
        if a not in box:
            # pinned by an equality (e.g. `fi == (fp + 1) % 4`): give it a generous range, the pre filter selects
            eq = [p for p in pres if re.search(r"\b%s\s*==" % a, p)]
            if not eq:
                return None
            box[a] = (-1, 12)
    size = 1
    for lo, hi in box.values():
        size *= max(0, hi - lo + 1)
    if size > 2000000:
        return None
    return {a: box[a] for a, _ in args}, pres


def run_auto(rec, module, conds, default_timeout=120, enumerate_ints=True):
    """Conditions whose parameters are all small-range ints are decided by exhaustive enumeration; the others by CrossHair."""
    en, ch = [], []
    for c in conds:
        b = box_from_source(module, c["fn"]) if enumerate_ints and not c.get("force_crosshair") else None
        if b:
            c = dict(c, box=b[0], pre=b[1])
            en.append(c)
        else:
            ch.append(c)
    if en:
        run_enumerated(rec, module, en)
    if ch:
        run_conditions(rec, module, ch, default_timeout=default_timeout)
    rec.extra["conditions_enumerated"] = rec.extra.get("conditions_enumerated", 0) + len(en)
    rec.extra["conditions_crosshair"] = rec.extra.get("conditions_crosshair", 0) + len(ch)
