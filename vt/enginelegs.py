"""Shared machinery of the engine legs (C01, C02, C03, C07, ...): tag-traced symbolic ABI arguments,
the concrete replay of solver models through the real build, translator validation."""
import sys
import time
from fractions import Fraction

import z3

from .common import SRC, HarnessError
from . import catalogue
from .glue import record_setup, real_engine
from .oracle import SymTab, rate_law
from .cxx.engine import (program, ast_info, initialize, algo, fetch_output, class_of, model_value, Interp, explore,
                         is_sym, Vec, Ptr)

if SRC not in sys.path:
    sys.path.insert(0, SRC)

T_MAX_BIG = 4096.0


def make_script(system, option, dt, policy="on_iteration", t_sample=(0,), t_max=T_MAX_BIG, isp="auto", seed=1, interval=1):
    from strengths import RDScript
    return RDScript(system, list(t_sample), time_step=dt, sampling_policy=policy, t_max=t_max, rng_seed=seed,
                    init_state_processing=isp, sampling_interval=interval)


def volumes_of(system):
    return [float(v) for v in system.space.get_cell_vol_array().value]


def symbolize(kind, named, st, fields=("state", "k", "D", "edge_sfc", "edge_dst", "dt")):
    """Replace the tag values of the selected ABI fields by the solver terms of st."""
    out = dict(named)
    kinds = {"state": "x", "k": "k", "D": "D", "edge_sfc": "sfc", "edge_dst": "dst", "dt": "dt", "t_sample": "ts",
             "t_max": "tmax", "interval": "itv"}
    for f in fields:
        if f not in out:
            continue
        v = out[f]
        if isinstance(v, list):
            out[f] = [st.value(x, kinds[f]) for x in v]
        else:
            out[f] = st.value(v, kinds[f])
    return out


def state_term(system, st):
    """X(s, i): solver term of the state entry, looked up through the documented species-major
    layout of RDSystem.state."""
    vals = [float(v) for v in system.state.value]
    nc = system.space.size()

    def X(s, i):
        return st.term(vals[s * nc + i], "x")
    return X


class ReplayTags(catalogue.Tags):
    """Rebuilds a catalogue structure with the solver model's values in place of the tags."""

    def __init__(self, mapping):
        catalogue.Tags.__init__(self)
        self.mapping = mapping

    def __call__(self):
        v = catalogue.Tags.__call__(self)
        return float(self.mapping.get(v, v))


def rebuild_with_model(netname, spacedesc, chem, st, model):
    mapping = {}
    if model is not None:
        for v, val in st.model_values(model).items():
            mapping[v] = float(val)
    return catalogue.build(netname, spacedesc, ReplayTags(mapping), chem), mapping


def eval_law_concrete(system, with_chemostats=True):
    """The reference law evaluated exactly (rationals) on the system's own concrete numbers."""
    st = SymTab(all_concrete=True)
    X = state_term(system, st)
    law = rate_law(system, st, X, with_chemostats)
    out = {}
    for key, term in law.items():
        v = z3.simplify(term)
        if z3.is_rational_value(v):
            out[key] = Fraction(v.numerator_as_long(), v.denominator_as_long())
        elif z3.is_int_value(v):
            out[key] = Fraction(v.as_long())
        else:
            raise HarnessError("reference law did not evaluate to a number: %s" % v)
    return out


REAL_RUN_LIMIT_S = 60


class RealBuildHang(Exception):
    """a run-to-completion of the real build exceeded its time limit: observable misbehaviour, not a harness problem"""


def real_run(script, option, n_iter=None, calls=None):
    """Drive the real build of the working tree. Returns (data list, t list). Without a `calls` callback the run happens in a forked
    child with a time limit: a native call that never returns (a loop of the engine that does not terminate) cannot be interrupted
    from Python, and must not hang the check - it is reported as RealBuildHang."""
    if calls is not None:
        return _real_run_here(script, option, n_iter, calls)
    import os
    import pickle
    import select
    import signal
    r, w = os.pipe()
    pid = os.fork()
    if pid == 0:
        code = 0
        try:
            os.close(r)
            try:
                out = ("ok", _real_run_here(script, option, n_iter, None))
            except RealBuildHang as ex:
                out = ("hang", str(ex))
            except BaseException as ex:     # noqa
                out = ("err", "%s: %s" % (type(ex).__name__, str(ex)[:300]))
            with os.fdopen(w, "wb") as fh:
                pickle.dump(out, fh)
        except BaseException:               # noqa
            code = 1
        os._exit(code)
    os.close(w)
    buf = b""
    deadline = time.time() + REAL_RUN_LIMIT_S + 15
    try:
        while True:
            left = deadline - time.time()
            if left <= 0:
                os.kill(pid, signal.SIGKILL)
                os.waitpid(pid, 0)
                raise RealBuildHang("a call into the real build did not return within %d s" % (REAL_RUN_LIMIT_S + 15))
            ready, _, _ = select.select([r], [], [], min(left, 1.0))
            if ready:
                chunk = os.read(r, 1 << 20)
                if not chunk:
                    break
                buf += chunk
    finally:
        os.close(r)
    _, status = os.waitpid(pid, 0)
    if not buf:
        raise HarnessError("the real build crashed in a child process (status %d)" % status)
    kind, val = pickle.loads(buf)
    if kind == "ok":
        return val
    if kind == "hang":
        raise RealBuildHang(val)
    raise HarnessError("real run failed in the child: " + val)


def _real_run_here(script, option, n_iter=None, calls=None):
    e = real_engine(option)
    # like record_setup: the engine OBJECT has been used before (one finalized and one abandoned set-up of other scripts)
    from .glue import _decoys, _DECOYS
    for decoy in _decoys():
        e.setup(decoy)
        if decoy is _DECOYS[0]:
            e.finalize()
    e.setup(script)
    try:
        if calls is not None:
            calls(e)
        elif n_iter is None:
            import time as _t
            t0, k = _t.time(), 0
            while e.iterate():
                k += 1
                if k % 4096 == 0 and _t.time() - t0 > REAL_RUN_LIMIT_S:
                    raise RealBuildHang("the real build did not complete the run within %d s (%d iterations)" % (REAL_RUN_LIMIT_S, k))
        else:
            for _ in range(n_iter):
                e.iterate()
        o = e.get_output()
        return [float(x) for x in o.data.value], [float(x) for x in o.t.value]
    finally:
        e.finalize()


def close(a, b, rel=1e-9, abs_=1e-12):
    a, b = float(a), float(b)
    return abs(a - b) <= abs_ + rel * max(abs(a), abs(b))


def validate_translator(rec, system, option="euler", n_iter=2, dt=0.0078125, desc=""):
    """cxx-sym run fully concretely == the real shared library (same tree) on the same script."""
    script = make_script(system, option, dt)
    kind, named, _ = record_setup(script, option)
    I = Interp(program())
    initialize(I, kind, named)
    for _ in range(n_iter):
        I.call_fn("engineexport_iterate", [])
    n, data, ts = fetch_output(I, len(system.network.species), system.space.size())
    rd, rt = real_run(script, option, n_iter)
    ok = len(rd) == len(data) and all(close(a, b) for a, b in zip(data, rd)) and len(rt) == len(ts) and all(close(a, b) for a, b in zip(ts, rt))
    if not ok:
        raise HarnessError("translator validation failed on %s: interpreter %s vs real %s" % (desc, [float(x) for x in data][:8], rd[:8]))
    rec.extra.setdefault("translator_validation", []).append({"structure": desc, "values_compared": len(rd) + len(rt), "agree": True})
    return True


# ------------------------------------------------------------------------------------------------
# Euler: one step of the real engine == x + dt * law   (C01 leg 1, C03 engine leg, C15/C16 equivalences)
def euler_step_terms(system, st, max_paths=64, fields=("state", "k", "D", "edge_sfc", "edge_dst", "dt"), dt_tag=0.00390625, sym_chem=None, grid_vol=None):
    """Symbolically executes initialize + one iterate + output fetch of the Euler engine through the
    tag-traced ABI. Yields (path, sample0 terms, sample1 terms, t terms, named) per feasible path."""
    script = make_script(system, "euler", dt_tag)
    kind, named, _ = record_setup(script, "euler")
    named_s = symbolize(kind, named, st, fields)
    ns, nc = len(system.network.species), system.space.size()
    if sym_chem is not None:
        named_s["chstt"] = list(sym_chem)
    if grid_vol is not None:
        named_s["vol"] = grid_vol[0]

    def body(I):
        for c in st.positivity():
            I.assume(c)
        if grid_vol is not None:
            I.assume(grid_vol[1] > 0)
            I.cbrt_known = [(grid_vol[0], grid_vol[1])]
        if sym_chem is not None:
            for c in sym_chem:
                I.assume(z3.And(c >= 0, c <= 1))
        dts = named_s["dt"]
        if is_sym(dts):
            I.assume(dts < 1)
        r = initialize(I, kind, named_s)
        if r != 0:
            raise HarnessError("initialize returned %r" % (r,))
        # the state is arbitrary, so this step stands for ANY step - provided the per-step scratch holds whatever an earlier
        # step left there: the derivative buffer starts with arbitrary contents
        obj = algo(I, kind)
        if "mesh_dxdt" in obj.fields:
            v = obj.field("mesh_dxdt")
            for k in range(len(v.elems)):
                v.elems[k] = I.fresh("stale_dxdt")
        I.call_fn("engineexport_iterate", [])
        return fetch_output(I, ns, nc)

    for pr in explore(program(), body, max_paths=max_paths):
        yield pr, named_s


def check_euler_step(rec, netname, spacedesc, chem=None, label="euler step = law", fields=("state", "k", "D", "edge_sfc", "edge_dst", "dt"),
                     sym_chem=False, per_path=None, sym_vol=False):
    """Obligations: sample 0 = input state (layout), sample 1 = x + dt*law for every (species, cell).
    sym_chem: the chemostat flags handed to the ABI are solver variables in {0,1} (all 2^(S*C) maps at once);
    the expected value is then  If(flag(s,i), x, x + dt*law_without_flags)."""
    desc = catalogue.describe(netname, spacedesc) + ("" if chem is None else " chem=" + "".join(map(str, chem))) + (" chem=symbolic" if sym_chem else "")
    system = catalogue.build(netname, spacedesc, None, chem)
    rec.structure(desc)
    st = SymTab(concrete=volumes_of(system))
    X = state_term(system, st)
    ns, nc = len(system.network.species), system.space.size()
    flags = None
    if sym_chem:
        flags = [z3.Int("chstt_%d_%d" % (s, i)) for s in range(ns) for i in range(nc)]   # species-major, as RDSystem.chemostats
        raw = rate_law(system, st, X, with_chemostats=False)
        law = {(s, i): z3.If(flags[s * nc + i] != 0, z3.RealVal(0), raw[(s, i)]) for s in range(ns) for i in range(nc)}
    else:
        law = rate_law(system, st, X, with_chemostats=True)
    gv = None
    if sym_vol:
        # the cell volume itself a solver variable: V = h^3 with h > 0 (the engine's pow(V, 1/3) is then exactly h)
        hh = z3.Real("cell_edge")
        gv = (hh * hh * hh, hh)
        desc += " volume=symbolic"
        law = rate_law(system, st, X, with_chemostats=True, grid_vol=gv)
    npaths = 0
    for pr, named_s in euler_step_terms(system, st, fields=fields, sym_chem=flags, grid_vol=gv):
        if pr.I is None:
            rec.oblig(label, "inconclusive", pr.ended, structure=desc)
            continue
        I = pr.I
        rec.paths += 1
        npaths += 1
        _collect_safety(rec, I, desc)
        if pr.ended:
            rec.oblig(label + " (path ended: %s)" % pr.ended, "inconclusive", pr.ended, structure=desc)
            continue
        n, data, ts = pr.value
        if n != 2:
            rec.oblig(label + ": two records after one on_iteration step", "inconclusive", "nsamples=%s" % n, structure=desc)
            continue
        dt = named_s["dt"]
        vac, _ = I.check()
        rec.vacuity_witness("euler-step " + desc, vac == "sat", vac)
        if per_path:
            I.replay_ctx = (netname, spacedesc, chem, st)       # lets a per-path obligation replay ITS OWN counterexample on the real build
            per_path(I, system, [data[s * nc + i] for s in range(ns) for i in range(nc)],
                     [data[ns * nc + s * nc + i] for s in range(ns) for i in range(nc)], "euler " + desc)
            continue
        for s in range(ns):
            for i in range(nc):
                x0 = I.toreal(data[s * nc + i])
                x1 = I.toreal(data[ns * nc + s * nc + i])
                import time as _t
                t0 = _t.time()
                status, m = I.prove(z3.And(x0 == X(s, i), x1 == X(s, i) + I.toreal(dt) * law[(s, i)]))
                secs = _t.time() - t0
                rec.query({"holds": "unsat", "violated": "sat"}.get(status, "unknown"), secs)
                name = "%s [species %d, cell %d]" % (label, s, i)
                if status == "holds":
                    rec.oblig(name, "holds", "", secs, desc)
                elif status == "inconclusive":
                    rec.oblig(name, "inconclusive", "solver unknown/timeout", secs, desc)
                else:
                    # prefer a counterexample whose deviation is far above rounding, so that the replay on the real (binary64) build shows it
                    exp_t = X(s, i) + I.toreal(dt) * law[(s, i)]
                    dev = x1 - exp_t
                    mag = z3.If(exp_t >= 0, exp_t, -exp_t)
                    r2, m2 = I.check(z3.Or(dev > 1 + mag / 1000, -dev > 1 + mag / 1000))
                    if r2 == "sat":
                        m = m2
                    rchem = chem
                    if flags is not None:
                        rchem = [int(model_value(m, f)) for f in flags]
                    ok, what, case = replay_euler_step(netname, spacedesc, rchem, st, m, s, i)
                    rec.oblig(name, "violated", what, secs, desc)
                    sig = "euler-step:%s:%s" % (netname, "grid" if spacedesc[0] == "grid" else "graph")
                    rec.violation(sig, "Euler engine step differs from the rate law: " + what, case, replayed=ok)
        rec.sample({"structure": desc, "obligation": "sample1[s=0,i=0] == x + dt*law",
                    "engine_term": str(z3.simplify(I.toreal(data[ns * nc])))[:300]})
    return npaths


def _collect_safety(rec, I, desc):
    for f in I.safety:
        rec.extra.setdefault("safety_failures_seen", [])
        item = "%s at %s: %s" % (f["kind"], f["where"], f["detail"])
        if item not in rec.extra["safety_failures_seen"]:
            rec.extra["safety_failures_seen"].append(item)


def replay_euler_step(netname, spacedesc, chem, st, model, s, i, n_steps=1):
    """Rebuild the structure with the model's numbers, run the REAL engine through the real
    LibRDEngine, compare with the reference law evaluated exactly. Returns (reproduced, text, case)."""
    system, mapping = rebuild_with_model(netname, spacedesc, chem, st, model)
    dt_tag = 0.00390625
    dt = float(mapping.get(dt_tag, dt_tag))
    script = make_script(system, "euler", dt)
    data, ts = real_run(script, "euler", 1)
    law = eval_law_concrete(system, True)
    ns, nc = len(system.network.species), system.space.size()
    x0 = [float(v) for v in system.state.value]
    bad = []
    for ss in range(ns):
        for ii in range(nc):
            exp = x0[ss * nc + ii] + dt * float(law[(ss, ii)])
            got = data[ns * nc + ss * nc + ii]
            if not close(exp, got, 1e-7, 1e-9):
                bad.append((ss, ii, exp, got))
    case = {"network": netname, "space": list(spacedesc), "chemostats": chem, "tag_values": {str(k): v for k, v in mapping.items()},
            "dt": dt, "mismatches": bad[:6]}
    if bad:
        ss, ii, exp, got = bad[0]
        return True, "species %d cell %d: law gives %.12g, real engine recorded %.12g (%s)" % (ss, ii, exp, got, catalogue.describe(netname, spacedesc)), case
    return False, "solver model did not reproduce on the real build (species %d cell %d)" % (s, i), case


def replay_euler_conservation(I, m, vector, claim_dev=None):
    """Real build, one Euler step from the solver's own counterexample (structure rebuilt with the model's numbers): does the
    conserved total move? Returns True when it does."""
    try:
        ctx = getattr(I, "replay_ctx", None)
        if ctx is None:
            return False
        netname, spacedesc, chem, st = ctx
        if claim_dev is not None:
            # prefer a counterexample whose deviation is far above rounding
            r2, m2 = I.check(claim_dev)
            if r2 == "sat":
                m = m2
        system, mapping = rebuild_with_model(netname, spacedesc, chem, st, m)
        dt_tag = 0.00390625
        dt = float(mapping.get(dt_tag, dt_tag))
        data, ts = real_run(make_script(system, "euler", dt), "euler", 1)
        ns, nc = len(system.network.species), system.space.size()
        t0 = sum(vector[s] * data[s * nc + i] for s in range(ns) for i in range(nc))
        t1 = sum(vector[s] * data[ns * nc + s * nc + i] for s in range(ns) for i in range(nc))
        scale = sum(abs(vector[s] * data[s * nc + i]) for s in range(ns) for i in range(nc)) + 1.0
        return abs(t1 - t0) > 1e-7 * scale
    except Exception:
        return False
