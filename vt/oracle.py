"""Reference specification (written from the property statements, not from the code under test):
mass-action + Bernstein diffusion law, grid neighbour relation, conservation vectors.
Built from the *Python objects* of a system; numeric quantities are mapped to solver terms by
their unique tag value (SymTab), the same table that is used to substitute the recorded ABI arrays.
"""
import sys
from fractions import Fraction

import z3

from .common import SRC

if SRC not in sys.path:
    sys.path.insert(0, SRC)


class SymTab:
    """tag value -> solver term.  0 stays the concrete 0; values in `concrete` stay concrete."""

    def __init__(self, concrete=(), all_concrete=False):
        self.by_val = {}
        self.concrete = {float(c) for c in concrete}
        self.all_concrete = all_concrete
        self.kinds = {}

    def term(self, v, kind="q"):
        v = float(v)
        if v == 0:
            return z3.RealVal(0)
        if self.all_concrete or v in self.concrete:
            f = Fraction(v)
            return z3.Q(f.numerator, f.denominator)
        if v not in self.by_val:
            self.by_val[v] = z3.Real("%s@%r" % (kind, v))
            self.kinds[v] = kind
        return self.by_val[v]

    def value(self, v, kind="q"):
        """Same as term() but returns Fractions for concrete values (for feeding the interpreter)."""
        v = float(v)
        if v == 0:
            return Fraction(0)
        if self.all_concrete or v in self.concrete:
            return Fraction(v)
        return self.term(v, kind)

    def positivity(self, nonneg_kinds=("x",)):
        """state entries >= 0, every other symbolic quantity > 0 (zeros are the concrete zeros of the catalogue)"""
        return [(s >= 0) if self.kinds.get(v) in nonneg_kinds else (s > 0) for v, s in self.by_val.items()]

    def model_values(self, m):
        from .cxx.engine import model_value
        return {v: model_value(m, s) for v, s in self.by_val.items()}


def grid_neighbor(space, i, direction):
    """Specification of the neighbour of cell i in direction 0..5 (+x,-x,+y,-y,+z,-z): the adjacent
    cell, wrapping on periodic axes; None at a reflecting border. The relation is between DISTINCT
    cells: on a periodic axis of length 1 a cell has no neighbour along that axis."""
    w, h, d = space.w, space.h, space.d
    bc = space.get_boundary_conditions()
    x, y, z = i % w, (i // w) % h, i // (w * h)
    c = [x, y, z]
    axis = direction // 2
    c[axis] += 1 if direction % 2 == 0 else -1
    L = (w, h, d)[axis]
    if not (0 <= c[axis] < L):
        if bc["xyz"[axis]] == "periodical" and L > 1:
            c[axis] %= L
        else:
            return None
    return c[0] + w * c[1] + w * h * c[2]


def contacts(system):
    """For each cell i: list of (j, surface_term_key, distance_term_key, Vi, Vj) contacts, one per
    shared face / edge end (parallel contacts appear separately)."""
    from strengths.rdspace import RDGridSpace
    space = system.space
    out = []
    if type(space) == RDGridSpace:
        V = space.cell_vol.value
        for i in range(space.size()):
            lst = []
            for n in range(6):
                j = grid_neighbor(space, i, n)
                if j is not None:
                    lst.append((j, None, None, V, V, n))
            out.append(lst)
    else:
        vols = [nd.volume.value for nd in space.nodes]
        for i in range(space.size()):
            lst = []
            for e in space.edges:
                if e.i == e.j:
                    continue        # the neighbour relation is between DISTINCT cells: a self-loop edge is no contact
                if e.i == i:
                    lst.append((e.j, e.surface.value, e.distance.value, vols[i], vols[e.j], len(lst)))
                if e.j == i:
                    lst.append((e.i, e.surface.value, e.distance.value, vols[i], vols[e.i], len(lst)))
            out.append(lst)
    return out


def _cbrt_exact(v):
    f = Fraction(v)
    c = Fraction(round(float(f) ** (1.0 / 3.0), 9)).limit_denominator(10 ** 6)
    if c ** 3 != f:
        raise ValueError("volume %s is not a perfect cube" % v)
    return c


def _val_in_env(value, env, zero):
    from strengths import value_processing as valproc
    v = valproc.get_value_in_env(value, env, zero)
    return v.value if hasattr(v, "value") else v


def rate_law(system, st, X, with_chemostats=True, grid_vol=None):
    """dict (s, i) -> z3 term of d x_{s,i}/dt under the documented law; X(s,i) gives the state term.
    Rate constants / diffusion coefficients / surfaces / distances are looked up in st by tag value.
    Flagged entries get 0 when with_chemostats."""
    from strengths.units import UnitValue
    net, space = system.network, system.space
    labels = net.species_labels()
    ns, nc = len(labels), space.size()
    envs = net.environments
    cell_env = [int(e) for e in space.get_cell_env_array()]
    vols = [float(v) for v in space.get_cell_vol_array().value]
    cont = contacts(system)
    chem = [int(c) for c in system.chemostats]
    out = {}
    for i in range(nc):
        e = envs[cell_env[i]]
        V = z3.Q(Fraction(vols[i]).numerator, Fraction(vols[i]).denominator) if grid_vol is None else grid_vol[0]
        reac = [z3.RealVal(0)] * ns
        for r in net.reactions:
            kf = st.term(_val_in_env(r.kf, e, 0), "k")
            kr = st.term(_val_in_env(r.kr, e, 0), "k")
            sub, prod = r.substrates, r.products
            rf, rr = kf * V, kr * V
            for s, lab in enumerate(labels):
                for _ in range(int(sub.get(lab, 0))):
                    rf = rf * (X(s, i) / V)
                for _ in range(int(prod.get(lab, 0))):
                    rr = rr * (X(s, i) / V)
            for s, lab in enumerate(labels):
                nu = int(prod.get(lab, 0)) - int(sub.get(lab, 0))
                if nu:
                    reac[s] = reac[s] + nu * (rf - rr)
        for s in range(ns):
            if with_chemostats and chem[s * nc + i]:
                out[(s, i)] = z3.RealVal(0)
                continue
            d = reac[s]
            sp = net.species[s]
            Di = st.term(_val_in_env(sp.D, e, 0), "D")
            for (j, sfc, dst, Vi, Vj, _slot) in cont[i]:
                Dj = st.term(_val_in_env(sp.D, envs[cell_env[j]], 0), "D")
                if grid_vol is not None:
                    hiz = hjz = grid_vol[1]
                    Viz = Vjz = grid_vol[0]
                else:
                    hi, hj = _cbrt_exact(Vi), _cbrt_exact(Vj)
                    hiz, hjz = z3.Q(hi.numerator, hi.denominator), z3.Q(hj.numerator, hj.denominator)
                    Viz = z3.Q(Fraction(Vi).numerator, Fraction(Vi).denominator)
                    Vjz = z3.Q(Fraction(Vj).numerator, Fraction(Vj).denominator)
                if sfc is None:
                    S, dist = hiz * hiz, hiz
                else:
                    S, dist = st.term(sfc, "sfc"), st.term(dst, "dst")
                Dij = z3.If(z3.And(Di != 0, Dj != 0), (hiz + hjz) / (hiz / Di + hjz / Dj), z3.RealVal(0))
                kij = Dij * S / (dist * Viz)
                kji = Dij * S / (dist * Vjz)
                d = d + kji * X(s, j) - kij * X(s, i)
            out[(s, i)] = d
    return out


def _q(v):
    f = Fraction(v)
    return z3.Q(f.numerator, f.denominator)


def diffusion_constant(system, st, s, i, contact):
    """first-order constant k_ij of species s leaving cell i through `contact` (Bernstein)."""
    net, space = system.network, system.space
    envs = net.environments
    cell_env = [int(e) for e in space.get_cell_env_array()]
    (j, sfc, dst, Vi, Vj, _slot) = contact
    sp = net.species[s]
    Di = st.term(_val_in_env(sp.D, envs[cell_env[i]], 0), "D")
    Dj = st.term(_val_in_env(sp.D, envs[cell_env[j]], 0), "D")
    hi, hj = _q(_cbrt_exact(Vi)), _q(_cbrt_exact(Vj))
    if sfc is None:
        S, dist = hi * hi, hi
    else:
        S, dist = st.term(sfc, "sfc"), st.term(dst, "dst")
    Dij = z3.If(z3.And(Di != 0, Dj != 0), (hi + hj) / (hi / Di + hj / Dj), z3.RealVal(0))
    return Dij * S / (dist * _q(Vi))


def propensities(system, st, X):
    """Master-equation propensities per channel, in the documented channel classes:
    react[(i, q, 'f'|'r')] = c * prod_s x(x-1)...(x-a+1) (0 unless every reactant count suffices),
       c = k_env(i) * V_i^(1-order);   diff[(i, s, slot)] = k_ij * x_is.
    Also returns per channel the state change vector {(s, cell): delta}."""
    net, space = system.network, system.space
    labels = net.species_labels()
    ns, nc = len(labels), space.size()
    envs = net.environments
    cell_env = [int(e) for e in space.get_cell_env_array()]
    vols = [float(v) for v in space.get_cell_vol_array().value]
    cont = contacts(system)
    react, diff, change, suff = {}, {}, {}, {}
    for i in range(nc):
        e = envs[cell_env[i]]
        V = _q(vols[i])
        for q, r in enumerate(net.reactions):
            for tag, kval, lhs, rhs in (("f", r.kf, r.substrates, r.products), ("r", r.kr, r.products, r.substrates)):
                k = st.term(_val_in_env(kval, e, 0), "k")
                order = sum(int(v) for v in lhs.values())
                c = k
                for _ in range(abs(1 - order)):
                    c = c * V if order < 1 else c / V
                a = c
                enough = []
                for s, lab in enumerate(labels):
                    m = int(lhs.get(lab, 0))
                    for qq in range(m):
                        a = a * (X(s, i) - qq)
                    if m:
                        enough.append(X(s, i) >= m)
                cond = z3.And(*enough) if enough else z3.BoolVal(True)
                react[(i, q, tag)] = z3.If(cond, a, z3.RealVal(0))
                suff[(i, q, tag)] = (cond, k)
                change[("R", i, q, tag)] = {(s, i): int(rhs.get(lab, 0)) - int(lhs.get(lab, 0)) for s, lab in enumerate(labels)
                                            if int(rhs.get(lab, 0)) - int(lhs.get(lab, 0))}
        for s in range(ns):
            for contact in cont[i]:
                j, slot = contact[0], contact[5]
                kij = diffusion_constant(system, st, s, i, contact)
                diff[(i, s, slot)] = (kij * X(s, i), kij, j)
                ch = {}
                ch[(s, i)] = ch.get((s, i), 0) - 1
                ch[(s, j)] = ch.get((s, j), 0) + 1
                change[("D", i, s, slot)] = ch
    return react, diff, change, suff


def left_null_basis(system, zero_species=()):
    """Integer basis of {c : c . nu_r = 0 for every reaction r, c_s = 0 for s in zero_species}
    (exact fraction elimination)."""
    net = system.network
    labels = net.species_labels()
    n = len(labels)
    rows = [[Fraction(int(r.products.get(l, 0)) - int(r.substrates.get(l, 0))) for l in labels] for r in net.reactions]
    for z in zero_species:
        rows.append([Fraction(1 if k == z else 0) for k in range(n)])
    # solve rows * c = 0
    piv = []
    m = [r[:] for r in rows]
    rk = 0
    for col in range(n):
        p = next((k for k in range(rk, len(m)) if m[k][col] != 0), None)
        if p is None:
            continue
        m[rk], m[p] = m[p], m[rk]
        m[rk] = [v / m[rk][col] for v in m[rk]]
        for k in range(len(m)):
            if k != rk and m[k][col] != 0:
                f = m[k][col]
                m[k] = [a - f * b for a, b in zip(m[k], m[rk])]
        piv.append(col)
        rk += 1
    free = [c for c in range(n) if c not in piv]
    basis = []
    for f in free:
        v = [Fraction(0)] * n
        v[f] = Fraction(1)
        for k, pc in enumerate(piv):
            v[pc] = -m[k][f]
        den = 1
        for x in v:
            den = den * x.denominator // __import__("math").gcd(den, x.denominator)
        basis.append([int(x * den) for x in v])
    return labels, basis


def conservation_basis(system):
    """Integer left-null vectors of the stoichiometric matrix (rows = species) via sympy-free
    fraction elimination; used only to report which combinations are conserved."""
    net = system.network
    labels = net.species_labels()
    cols = []
    for r in net.reactions:
        cols.append([int(r.products.get(l, 0)) - int(r.substrates.get(l, 0)) for l in labels])
    return labels, cols
