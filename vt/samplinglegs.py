"""Sampling contract / completion legs (C09, parts of C10 and C11): Init + up to K Iterate calls of the
real engine code with symbolic step lengths, requested times and t_max."""
import time
from fractions import Fraction

import z3

from .common import HarnessError
from . import catalogue
from .glue import record_setup
from .enginelegs import make_script, _collect_safety
from .stochlegs import _prove
from .cxx.engine import program, initialize, algo, fetch_output, Interp, explore, is_sym, Vec, Ptr, frac

TS_TAGS = [0.5625, 0.6875, 0.8125, 0.9375]
DT_TAG, TMAX_TAG, ITV_TAG = 0.00390625, 3.0625, 0.5


def _system(kind):
    return catalogue.build("none", ("grid", 1, 1, 1, 0) if kind == "grid" else ("graph", "pair"))


def explore_sampling(option, kind, policy, K, n_req, tmax_mode="symbolic", varstep=False, sample_calls=(), extra_iter=1, max_paths=3000,
                     budget_s=240):
    """Yields (I, info) per feasible path. info: T (times after each step, T[0]=0), rec_steps (step indices at which the
    record count grew), rets, terms of requested times / t_max / dt, outputs."""
    system = _system(kind)
    ts = TS_TAGS[:n_req]
    script = make_script(system, option, DT_TAG, policy=policy, t_sample=ts if ts else (0,), isp="none",
                         t_max=TMAX_TAG if tmax_mode != "default" else "default", interval=ITV_TAG)
    kd, named, _ = record_setup(script, option)
    ns, nc = len(system.network.species), system.space.size()
    R = [z3.Real("req%d" % m) for m in range(n_req)]
    dt = z3.Real("dt")
    tmax = z3.Real("tmax") if tmax_mode == "symbolic" else None

    def body(I):
        named_s = dict(named)
        # locate the tags in the recorded call (tag tracing): requested times, dt, t_max
        if n_req:
            if [float(x) for x in named["t_sample"]] != ts:
                raise HarnessError("t_sample not passed through as given: %r" % (named["t_sample"],))
            named_s["t_sample"] = list(R)
        else:
            named_s["t_sample"] = [frac(x) for x in named["t_sample"]]
        if float(named["dt"]) != DT_TAG:
            raise HarnessError("time_step not passed through")
        named_s["dt"] = dt
        I.assume(dt > 0)
        for m in range(n_req):
            I.assume(R[m] >= (R[m - 1] if m else 0))
        if tmax_mode == "symbolic":
            if float(named["t_max"]) != TMAX_TAG:
                raise HarnessError("t_max not passed through")
            named_s["t_max"] = tmax
            I.assume(tmax >= 0)
        elif tmax_mode == "default":
            if not n_req or float(named["t_max"]) != ts[-1]:
                raise HarnessError("default t_max is not the last requested time: %r" % (named["t_max"],))
            named_s["t_max"] = R[-1]
        I.check_lib_pre = False
        if initialize(I, kd, named_s) != 0:
            raise HarnessError("initialize failed")
        obj = algo(I)
        if option == "gillespie":
            def cp(I_, this, args):
                # the system may DIE (total propensity 0) at any call: decided per path; a dead system stays dead
                if not getattr(I_, "_dead", False):
                    if not I_.truth(I_.fresh("alive", "bool")):
                        I_._dead = True
                this.fields["a0"].set(Fraction(0) if getattr(I_, "_dead", False) else Fraction(1))
                return None
            I.stubs["ComputePropensities"] = cp
            I.stubs["DrawAndApplyEvent"] = lambda I_, this, args: None
        n0 = I.call_fn("engineexport_get_nsamples", [])
        counts, T, rets, steps_dt = [n0], [Fraction(0)], [], []
        manual = []
        dead_at = None
        for pos, what in sample_calls:
            if pos == 0:
                I.call_fn("engineexport_sample", [])
                manual.append((0, I.call_fn("engineexport_get_nsamples", [])))
        done_at = None
        for k in range(1, K + 1 + extra_iter):
            if varstep and option != "gillespie" and done_at is None:
                d = I.fresh("delta")
                I.assume(d > 0)
                obj.fields["dt"].set(d)
            ev0 = len(I.events)
            if option == "gillespie":
                # waiting-time draw u > 0 (stated): log(1/u) > 0
                pass
            ret = I.call_fn("engineexport_iterate", [])
            for e in I.events[ev0:]:
                if e[0] == "uniform":
                    I.assume(e[1] > 0)
            cont = I.truth(ret)
            rets.append(cont)
            T.append(obj.field("t"))
            counts.append(I.call_fn("engineexport_get_nsamples", []))
            if getattr(I, "_dead", False):
                dead_at = k
                break
            for pos, what in sample_calls:
                if pos == k:
                    I.call_fn("engineexport_sample", [])
                    manual.append((k, I.call_fn("engineexport_get_nsamples", [])))
            if not cont:
                if done_at is None:
                    done_at = k
                elif k >= done_at + extra_iter:
                    break
            if done_at is None and k >= K:
                break
        n, data, tsout = fetch_output(I, ns, nc)
        n_b, data_b, ts_b = fetch_output(I, ns, nc)
        return {"obj": obj, "counts": counts, "T": T, "rets": rets, "done_at": done_at, "dead_at": dead_at, "n": n, "data": data, "ts": tsout,
                "again": (n_b, data_b, ts_b), "manual": manual, "R": R, "dt": dt, "tmax": (tmax if tmax_mode == "symbolic" else (R[-1] if tmax_mode == "default" else Fraction(TMAX_TAG))),
                "ns": ns, "nc": nc}

    for pr in explore(program(), body, max_paths=max_paths, budget_s=budget_s, unwind=12):
        yield pr


def _first_step_at_or_after(T, r, k, I):
    """formula: k is the first step index with T_k >= r (T_0 = 0)."""
    c = [I.toreal(T[k]) >= r]
    if k > 0:
        c.append(I.toreal(T[k - 1]) < r)
    return z3.And(*c)


def check_sampling(rec, option, kind, policy, K, n_req, tmax_mode="symbolic", varstep=False, sample_calls=()):
    desc = "%s/%s policy=%s K=%d requested=%d t_max=%s%s%s" % (option, kind, policy, K, n_req, tmax_mode, " varstep" if varstep else "",
                                                               " manual=%s" % (list(sample_calls),) if sample_calls else "")
    rec.structure(desc)
    npaths = 0
    completed = 0
    for pr in explore_sampling(option, kind, policy, K, n_req, tmax_mode, varstep, sample_calls):
        if pr.I is None:
            rec.oblig("sampling exploration", "inconclusive", pr.ended, structure=desc)
            continue
        I = pr.I
        _collect_safety(rec, I, desc)
        if pr.ended:
            if pr.ended.startswith("UNWIND"):
                rec.oblig("unwinding assertion", "inconclusive", pr.ended, structure=desc)
            else:
                rec.oblig("path ended: " + pr.ended, "inconclusive", pr.ended, structure=desc)
            continue
        feas, _ = I.check()
        if feas == "unsat":
            continue
        npaths += 1
        rec.paths += 1
        v = pr.value
        T, counts, rets, R, tmax = v["T"], v["counts"], v["rets"], v["R"], v["tmax"]
        done_at = v["done_at"]
        if v.get("dead_at"):
            # the call at which the total propensity was 0 performs NO step: it reports 'finished', leaves the time where it was and
            # records nothing; the steps before it are judged like those of a run that has not completed yet
            kd = v["dead_at"]
            same_t = (T[kd] is T[kd - 1]) or z3.eq(I.tosym(T[kd]), I.tosym(T[kd - 1]))
            okd = (rets[kd - 1] is False) and same_t and counts[kd] == dict(v["manual"]).get(kd - 1, counts[kd - 1])
            rec.oblig("a call made when the total propensity is 0 performs no step: 'finished', time unchanged, no record", "holds" if okd else "violated",
                      "returned %s, records %d -> %d" % (rets[kd - 1], counts[kd - 1], counts[kd]), 0, desc)
            if not okd:
                rec.violation("sampling-dead-system:%s" % policy, "when the system dies (total propensity 0) the Gillespie engine does more than report completion: "
                              "it records a state or moves the time although no step is made (%s)" % desc, {"structure": desc, "call": kd}, replayed=replay_dead_system(kind, policy))
            T, counts, rets = T[:kd], counts[:kd], rets[:kd - 1]
            if done_at is not None and done_at >= kd:
                done_at = None
        nsteps = len(rets)
        tmaxz = I.toreal(tmax)
        # which steps recorded (by the sampling policy; manual calls are tracked separately)
        rec_steps = []
        grew_by = {}
        prev = 0
        manual = dict(v["manual"])
        for k in range(0, nsteps + 1):
            c = counts[k]
            if c - prev > 1:
                rec.oblig("at most one record per step", "violated", "step %d made %d records" % (k, c - prev), 0, desc)
                rec.violation("sampling-multi-record:%s" % policy, "step %d produced %d records (%s)" % (k, c - prev, desc), {"structure": desc})
            if c > prev:
                rec_steps.append(k)
            prev = manual.get(k, c)
        # fixed-step: T_k = k*dt while running
        if not varstep and option != "gillespie":
            for k in range(1, nsteps + 1):
                if done_at is None or k <= done_at:
                    _prove(rec, I, "fixed-step time after step %d is %d*dt" % (k, k), I.toreal(T[k]) == k * v["dt"], desc)
        # completion: reported exactly at the first step beyond t_max, then sticky
        for k in range(1, nsteps + 1):
            if done_at is None or k <= done_at:
                exp_cont = I.toreal(T[k]) <= tmaxz
                _prove(rec, I, "step %d reports 'continue' iff t <= t_max" % k, exp_cont if rets[k - 1] else z3.Not(exp_cont), desc,
                       lambda m: rec.violation("completion-flag:%s" % option, "completion is not reported exactly at the first step beyond t_max (%s)" % desc,
                                               {"structure": desc, "model": str(m)[:300]}))
            else:
                base = dict(v["manual"]).get(k - 1, counts[k - 1])
                same = z3.eq(I.tosym(T[k]), I.tosym(T[done_at])) and counts[k] == base and rets[k - 1] is False
                rec.oblig("completed simulation stays completed; further iterations change nothing", "holds" if same else "violated", "", 0, desc)
                if not same:
                    rec.violation("completion-not-sticky:%s" % option, "an iteration after completion changed time/samples or reported 'continue' (%s)" % desc, {"structure": desc})
        if done_at is not None:
            completed += 1
            if not varstep and option != "gillespie":
                n_ = done_at
                _prove(rec, I, "number of steps is floor(t_max/dt)+1", z3.And((n_ - 1) * v["dt"] <= tmaxz, tmaxz < n_ * v["dt"]), desc)
        last = nsteps if done_at is None else done_at
        Tl = I.toreal(T[last])
        if policy == "on_t_sample":
            for m in range(n_req):
                cover = z3.Or(*[_first_step_at_or_after(T, R[m], k, I) for k in rec_steps]) if rec_steps else z3.BoolVal(False)
                _prove(rec, I, "requested time %d (<= t_max, reached) is covered by the record of the first step at or after it" % m,
                       z3.Implies(z3.And(R[m] <= tmaxz, R[m] <= Tl), cover), desc,
                       lambda mm, m=m: rec.violation("sampling-missed-request", "a requested time <= t_max is not covered by the record of the first step at/after it (%s)" % desc,
                                                     {"structure": desc, "model": str(mm)[:400], "recorded_steps": rec_steps}, replayed=sampling_replays(option, kind, policy)))
            for k in rec_steps:
                why = z3.Or(*[_first_step_at_or_after(T, R[m], k, I) for m in range(n_req)]) if n_req else z3.BoolVal(False)
                _prove(rec, I, "record at step %d is the first step at/after some requested time" % k, why, desc,
                       lambda mm, k=k: rec.violation("sampling-spurious-record", "a record was taken at a step that is not the first one at/after any requested time (%s)" % desc,
                                                     {"structure": desc, "model": str(mm)[:400], "step": k}, replayed=sampling_replays(option, kind, policy)))
        elif policy == "on_iteration":
            ok = rec_steps == list(range(0, last + 1))
            rec.oblig("per-iteration sampling records t=0 and every step", "holds" if ok else "violated", rec_steps, 0, desc)
            if not ok:
                rec.violation("sampling-on-iteration", "per-iteration sampling recorded steps %s of %d (%s)" % (rec_steps, last, desc), {"structure": desc})
        elif policy == "on_interval":
            itv = Fraction(ITV_TAG)
            rec.oblig("interval sampling records t=0", "holds" if 0 in rec_steps else "violated", rec_steps, 0, desc)
            if 0 not in rec_steps:
                rec.violation("sampling-interval-t0", "interval sampling did not record t=0 (%s)" % desc, {"structure": desc})
            for k in range(1, last + 1):
                crossed = z3.ToInt(I.toreal(T[k]) / z3.Q(itv.numerator, itv.denominator)) > z3.ToInt(I.toreal(T[k - 1]) / z3.Q(itv.numerator, itv.denominator))
                _prove(rec, I, "interval sampling: step %d recorded iff a multiple of the interval lies in (t_prev, t]" % k,
                       crossed if k in rec_steps else z3.Not(crossed), desc,
                       lambda mm, k=k: rec.violation("sampling-interval", "interval sampling record set differs from 'first step at/after each multiple' (%s)" % desc,
                                                     {"structure": desc, "model": str(mm)[:300], "step": k, "recorded": rec_steps}, replayed=sampling_replays(option, kind, policy)))
        elif policy == "no_sampling":
            ok = rec_steps == []
            rec.oblig("sampling disabled: the policy records nothing", "holds" if ok else "violated", rec_steps, 0, desc)
            if not ok:
                rec.violation("sampling-disabled-records", "records were taken although sampling is disabled (%s)" % desc, {"structure": desc})
        # explicit sample() calls: each records exactly one state, unless the step it is made in is already recorded (by the policy
        # or by an earlier explicit call) - before AND after completion
        seen_manual = {}
        for k, cnt in v["manual"]:
            before = seen_manual.get(k, counts[k])
            already = (k in rec_steps) or (k in seen_manual)
            ok = cnt == before + (0 if already else 1)
            where = "after completion" if (done_at is not None and k >= done_at) else "before completion"
            rec.oblig("explicit sample() at step %d (%s) records exactly one state unless that step is already recorded" % (k, where), "holds" if ok else "violated",
                      "records before / after the call: %d / %d, step already recorded: %s" % (before, cnt, already), 0, desc)
            if not ok:
                rec.violation("sampling-explicit-call:%s" % ("after" if where.startswith("after") else "before"),
                              "an explicit sample() call %s did not record exactly one state (%s)" % (where, desc), {"structure": desc, "step": k, "before": before, "after": cnt},
                              replayed=replay_explicit_sample(option, kind))
            seen_manual[k] = cnt
        ts = [I.toreal(x) for x in v["ts"]]
        if len(ts) != v["n"] or len(v["data"]) != v["n"] * v["ns"] * v["nc"]:
            rec.oblig("one time per sample; nsamples*nspecies*ncells data values", "violated", "", 0, desc)
        strict = not sample_calls
        for a, b in zip(ts, ts[1:]):
            _prove(rec, I, "record times are %s" % ("strictly increasing" if strict else "non-decreasing"), (a < b) if strict else (a <= b), desc,
                   lambda mm: rec.violation("sampling-time-order", "record times are not monotone (%s)" % desc, {"structure": desc, "model": str(mm)[:300]}, replayed=sampling_replays(option, kind, policy)))
        # each record's time is the time of the step at which it was taken
        pol_steps = list(rec_steps)
        # repeated fetch gives the same result
        nb, db, tb = v["again"]
        same = nb == v["n"] and all((x is y) or z3.eq(I.tosym(x), I.tosym(y)) for x, y in zip(list(v["data"]) + list(v["ts"]), list(db) + list(tb)))
        rec.oblig("output fetched twice is identical", "holds" if same else "violated", "", 0, desc)
        if not same:
            rec.violation("output-not-repeatable", "fetching the output twice gives different results (%s)" % desc, {"structure": desc})
        if npaths <= 2:
            rec.sample({"structure": desc, "recorded_steps": rec_steps, "steps": nsteps, "done_at": done_at,
                        "record_times": [str(z3.simplify(x)) for x in ts][:6]})
    rec.vacuity_witness("sampling " + desc, npaths > 0, "%d feasible paths, %d completed" % (npaths, completed))
    return npaths


# -------------------------------------------------------------------------------- real-build audit (replay)
def _ref_sets(T, req, tmax, policy, interval):
    """(required, allowed) record step sets of the specification, given all step times T (T[0] = 0)."""
    N = next((k for k in range(1, len(T)) if T[k] > tmax), len(T) - 1)
    steps = list(range(0, N + 1))
    if policy == "on_iteration":
        return set(steps), set(steps), N
    if policy == "no_sampling":
        return set(), set(), N
    if policy == "on_interval":
        s = {0}
        import math
        for k in range(1, N + 1):
            if math.floor(T[k] / interval) > math.floor(T[k - 1] / interval):
                s.add(k)
        return s, set(s), N
    required, allowed = set(), set()
    for r in req:
        k = next((k for k in steps if T[k] >= r), None)
        if k is None:
            continue
        allowed.add(k)
        if r <= tmax:
            required.add(k)
    return required, allowed, N


def audit_sampling_real(option, kind, policy, seeds=(1, 2, 3), dt=0.125):
    """Two real runs with the same seed: per-iteration sampling yields every step time, the run under
    `policy` yields the records; requested times are chosen ON and BETWEEN those step times."""
    from .enginelegs import real_run
    netname = "AB_rev"
    sd = ("grid", 2, 1, 1, 0) if kind == "grid" else ("graph", "pair")
    system = catalogue.build(netname, sd)
    system.state = [40.0] * (2 * system.space.size())
    out = []
    for seed in seeds:
        sA = make_script(system, option, dt, policy="on_iteration", t_sample=(0,), t_max=1e9, isp="none", seed=seed)
        _, T = real_run(sA, option, 12)
        if len(T) < 8:
            continue
        cases = [([0.0, T[2], (T[3] + T[4]) / 2], T[6]), ([T[1], T[1], T[3]], T[5]), ([(T[2] + T[3]) / 2, (T[2] + T[3]) / 2 + (T[3] - T[2]) / 4, T[5]], T[4]),
                 ([T[2] / 2], T[3]), ([0.0, T[4]], T[4])]
        for req, tmax in cases:
            sB = make_script(system, option, dt, policy=policy, t_sample=req, t_max=tmax, isp="none", seed=seed, interval=(T[3] - T[0]) / 2 or 1)
            _, rt = real_run(sB, option, None)
            required, allowed, N = _ref_sets(T, req, tmax, policy, (T[3] - T[0]) / 2 or 1)
            got = set()
            bad = None
            for t in rt:
                ks = [k for k in range(len(T)) if T[k] == t]
                if not ks:
                    bad = "record time %r is not a step time" % t
                    break
                got.add(ks[0])
            if bad is None and any(b <= a for a, b in zip(rt, rt[1:])):
                bad = "record times not strictly increasing: %r" % rt
            if bad is None and not (required <= got <= allowed):
                bad = "recorded steps %s, required %s, allowed %s" % (sorted(got), sorted(required), sorted(allowed))
            if bad:
                out.append({"seed": seed, "requested": req, "t_max": tmax, "step_times": T[:9], "record_times": rt, "problem": bad})
    return out


def replay_dead_system(kind, policy):
    """real build: a Gillespie run whose reactions are exhausted before t_max (6 molecules of A decaying, no diffusion): the records must
    be t = 0 plus what the policy records at the 6 events - in particular strictly increasing times and, per iteration, exactly 7 records"""
    try:
        from .glue import real_engine
        from strengths import RDNetwork, Species, Reaction, RDSystem, RDGridSpace, RDGraphSpace, RDScript
        from strengths.rdgraphspace import RDGraphSpaceNode as N, RDGraphSpaceEdge as E
        net = RDNetwork(species=[Species("A"), Species("B")], reactions=[Reaction("A -> B", kf=1.0)])
        space = RDGridSpace(w=2, h=1, d=1) if kind == "grid" else RDGraphSpace(nodes=[N(1.0, 0), N(1.0, 0)], edges=[E(0, 1)])
        bad = False
        for seed in (1, 2, 3):
            sysm = RDSystem(net, space, state=[3.0, 3.0, 0.0, 0.0])
            e = real_engine("gillespie")
            e.setup(RDScript(sysm, [0.0, 1e6], sampling_policy=policy, sampling_interval=1e5, rng_seed=seed, init_state_processing="none", t_max=1e6))
            n = 0
            while e.iterate() and n < 1000:
                n += 1
            e.iterate()
            t = [float(x) for x in e.get_output().t.value]
            e.finalize()
            if any(b <= a for a, b in zip(t, t[1:])) or (policy == "on_iteration" and len(t) != 7):
                bad = True
        return bad
    except Exception:
        return False


def replay_explicit_sample(option, kind):
    """real build: sampling disabled, run to completion (and one iteration more), explicit sample(): exactly one record, taken at the final time"""
    try:
        from .glue import real_engine
        from .enginelegs import make_script
        from . import catalogue
        system = catalogue.build("AB_rev", ("grid", 2, 1, 1, 0) if kind == "grid" else ("graph", "pair"))
        bad = False
        for policy in ("no_sampling", "on_t_sample"):
            sc = make_script(system, option, 0.25, policy=policy, t_sample=(0,), t_max=1.0, isp="none", seed=3)
            e = real_engine(option)
            e.setup(sc)
            n = 0
            while e.iterate() and n < 100000:
                n += 1
            e.iterate()
            n0 = len(e.get_output().t.value)
            e.sample()
            n1 = len(e.get_output().t.value)
            e.sample()
            n2 = len(e.get_output().t.value)
            e.finalize()
            if n1 != n0 + 1 or n2 != n1:
                bad = True
        return bad
    except Exception:
        return False


def sampling_replays(option, kind, policy):
    from .enginelegs import RealBuildHang
    try:
        if policy == "no_sampling":
            return True
        return bool(audit_sampling_real(option, kind, policy))
    except RealBuildHang:
        return True          # the real build never completes the audited run: the defect is observable
    except Exception:
        return False
