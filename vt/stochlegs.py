"""Stochastic engine legs (Gillespie, tau-leap): one inductive Iterate() from an arbitrary state,
decided compositionally with the cut at the propensity tables (DESIGN.md 2.1).

Stage 1  ComputePropensities from an arbitrary state: every table entry == master-equation spec.
Stage 2  the real Iterate() with ComputePropensities replaced by its *contract* (fresh non-negative
         table entries, entries that stage 1 showed to be identically 0 stay 0, partial sums equal
         the sums of their entries): the event applied is the one whose cumulative interval
         contains u*a0, the state change is that channel's vector masked by the chemostat flags,
         t' = t + log(1/u2)/a0.
Tau-leap is executed whole (ReactionProp summarised into ITE terms): every Poisson mean equals
propensity*dt, and Apply_nevt moves exactly the drawn counts.
"""
import time
from fractions import Fraction

import z3

from .common import HarnessError
from . import catalogue
from .glue import record_setup
from .oracle import SymTab, propensities, contacts, left_null_basis
from .enginelegs import make_script, symbolize, state_term, volumes_of, _collect_safety
from .cxx.engine import program, initialize, algo, Interp, explore, is_sym, Vec, Ptr, class_of

DT_TAG = 0.00390625


def _setup(system, option, st, fields):
    script = make_script(system, option, DT_TAG, policy="no_sampling", t_sample=(0,), t_max=-1.0, isp="none")
    kind, named, _ = record_setup(script, option)
    return kind, symbolize(kind, named, st, fields)


def get_state(I, ns, nc):
    buf = Vec([None] * (ns * nc), "double", raw=True, name="state_out")
    I.call_fn("engineexport_get_state", [Ptr(buf)])
    return buf.elems


def _assume_inputs(I, st, named_s):
    for c in st.positivity():
        I.assume(c)
    if is_sym(named_s.get("dt")):
        I.assume(named_s["dt"] < 1)


def _prove(rec, I, name, claim, desc, on_violation=None):
    t0 = time.time()
    status, m = I.prove(claim)
    secs = time.time() - t0
    rec.query({"holds": "unsat", "violated": "sat"}.get(status, "unknown"), secs)
    if status == "holds":
        rec.oblig(name, "holds", "", secs, desc)
    elif status == "inconclusive":
        rec.oblig(name, "inconclusive", "solver unknown/timeout", secs, desc)
    else:
        rec.oblig(name, "violated", "model found", secs, desc)
        if on_violation:
            on_violation(m)
    return status, m


def channel_order(system):
    """Channels in the engine's cumulative order: cell-major; reactions (f0,r0,f1,r1,...) then
    diffusion (species-major, contact slot minor)."""
    nq = len(system.network.reactions)
    ns = len(system.network.species)
    cont = contacts(system)
    out = []
    for i in range(system.space.size()):
        for q in range(nq):
            out.append(("R", i, q, "f"))
            out.append(("R", i, q, "r"))
        for s in range(ns):
            for c in cont[i]:
                out.append(("D", i, s, c[5]))
    return out


def _table_slots(obj, system, kind, names=("mesh_ar", "mesh_ad")):
    """channel -> (vector, index) of the engine's per-channel tables"""
    nq2 = 2 * len(system.network.reactions)
    ns = len(system.network.species)
    nc = system.space.size()
    ar = obj.field(names[0])
    ad = obj.field(names[1])
    cont = contacts(system)
    out = {}
    for i in range(nc):
        for q in range(nq2 // 2):
            out[("R", i, q, "f")] = (ar, i * nq2 + 2 * q)
            out[("R", i, q, "r")] = (ar, i * nq2 + 2 * q + 1)
        for s in range(ns):
            for c in cont[i]:
                slot = c[5]
                if kind == "grid":
                    out[("D", i, s, slot)] = (ad, i * ns * 6 + s * 6 + slot)
                else:
                    out[("D", i, s, slot)] = (ad.elems[i], s * len(cont[i]) + slot)
    return out


def _tables(obj, system, kind, names=("mesh_ar", "mesh_ad")):
    """Read the engine's per-channel tables (internal layout, see module docstring)."""
    nq2 = 2 * len(system.network.reactions)
    ns = len(system.network.species)
    nc = system.space.size()
    ar = obj.field(names[0]).elems
    ad = obj.field(names[1]).elems
    cont = contacts(system)
    out = {}
    for i in range(nc):
        for q in range(nq2 // 2):
            out[("R", i, q, "f")] = ar[i * nq2 + 2 * q]
            out[("R", i, q, "r")] = ar[i * nq2 + 2 * q + 1]
        for s in range(ns):
            for c in cont[i]:
                slot = c[5]
                if kind == "grid":
                    out[("D", i, s, slot)] = ad[i * ns * 6 + s * 6 + slot]
                else:
                    nn = len(cont[i])
                    out[("D", i, s, slot)] = ad[i].elems[s * nn + slot]
    return out


# -------------------------------------------------------------------------------- Gillespie
def gillespie_stage1(rec, netname, spacedesc, chem=None, fields=("state", "k", "D", "edge_sfc", "edge_dst")):
    """Tables == spec for every state; returns the stage-1 facts needed by stage 2."""
    desc = "gillespie " + catalogue.describe(netname, spacedesc)
    system = catalogue.build(netname, spacedesc, None, chem)
    rec.structure(desc)
    st = SymTab(concrete=volumes_of(system))
    X = state_term(system, st)
    kind, named_s = _setup(system, "gillespie", st, fields)
    ns, nc = len(system.network.species), system.space.size()
    react, diff, change, suff = propensities(system, st, X)
    facts = {"zero": set(), "system": system, "st": st, "kind": kind, "named_s": named_s, "X": X}
    xprev = {(s_, i_): z3.Real("xprev_%d_%d" % (s_, i_)) for s_ in range(ns) for i_ in range(nc)}
    react_prev, diff_prev, _c, _s = propensities(system, st, lambda s_, i_: xprev[(s_, i_)])

    def body(I):
        _assume_inputs(I, st, named_s)
        I.summarise = {"ReactionProp", "Poisson"}
        if initialize(I, kind, named_s) != 0:
            raise HarnessError("initialize failed")
        obj = algo(I)
        before = list(get_state(I, ns, nc))
        I.call_method(obj, "ComputePropensities")
        first = dict(_tables(obj, system, kind))
        sums1 = (list(obj.field("mesh_a0r").elems), list(obj.field("mesh_a0d").elems), obj.field("a0"))
        flat1 = list(obj.field("mesh_ad").elems) if kind == "grid" else [x for v in obj.field("mesh_ad").elems for x in v.elems]
        # second call from STALE table contents: the tables hold the specification values of an arbitrary EARLIER state X'
        # (what a correct earlier call leaves behind - the invariant real histories satisfy), the state is X: "tables = spec(X)"
        # afterwards means every entry and every sum is recomputed from the current state
        for ch, (vec, idx) in _table_slots(obj, system, kind).items():
            vec.elems[idx] = react_prev[(ch[1], ch[2], ch[3])] if ch[0] == "R" else diff_prev[(ch[1], ch[2], ch[3])][0]
        for i in range(nc):
            obj.field("mesh_a0r").elems[i] = sum((react_prev[(c[1], c[2], c[3])] for c in channel_order(system) if c[0] == "R" and c[1] == i), z3.RealVal(0))
            obj.field("mesh_a0d").elems[i] = sum((diff_prev[(c[1], c[2], c[3])][0] for c in channel_order(system) if c[0] == "D" and c[1] == i), z3.RealVal(0))
        obj.fields["a0"].set(sum((react_prev[(c[1], c[2], c[3])] if c[0] == "R" else diff_prev[(c[1], c[2], c[3])][0] for c in channel_order(system)), z3.RealVal(0)))
        for v in xprev.values():
            I.assume(v >= 0)
        I.call_method(obj, "ComputePropensities")
        second = dict(_tables(obj, system, kind))
        return obj, before, first, sums1, flat1, second

    n = 0
    for pr in explore(program(), body, max_paths=32):
        if pr.I is None or pr.ended:
            rec.oblig("propensity tables = master-equation spec", "inconclusive", pr.ended, structure=desc)
            continue
        n += 1
        rec.paths += 1
        I = pr.I
        _collect_safety(rec, I, desc)
        obj, before, tab, sums1, flat_ad, second = pr.value
        after = get_state(I, ns, nc)
        same = all((a is b) or (not is_sym(a) and not is_sym(b) and a == b) or z3.eq(I.tosym(a), I.tosym(b)) for a, b in zip(before, after))
        rec.oblig("ComputePropensities leaves the state untouched", "holds" if same else "violated", "", 0, desc)
        for ch in channel_order(system):
            spec = react[(ch[1], ch[2], ch[3])] if ch[0] == "R" else diff[(ch[1], ch[2], ch[3])][0]
            _prove(rec, I, "propensity %s == spec(current state) after a call that starts from the tables of an arbitrary earlier state" % (ch,), I.toreal(second[ch]) == spec, desc,
                   lambda m, ch=ch: rec.violation("gillespie-stale-propensity:%s:%s" % (netname, ch[0]),
                                                  "ComputePropensities does not recompute the propensity of channel %s from the state: a value left by an earlier step survives (%s)" % (ch, desc),
                                                  {"structure": desc, "channel": list(ch), "model": str(m)[:600]},
                                                  replayed=audit_finds(system, "gillespie", "illegal-event") or audit_finds(system, "gillespie", "noop-event") or _audit_sparse(system) or _audit_empty_source(system)))
            got = tab[ch]
            if not is_sym(got) and got == 0:
                facts["zero"].add(ch)
            _prove(rec, I, "propensity %s == spec" % (ch,), I.toreal(got) == spec, desc,
                   lambda m, ch=ch: rec.violation("gillespie-propensity:%s:%s" % (netname, ch[0]),
                                                  "Gillespie propensity of channel %s differs from the master-equation value (%s)" % (ch, desc),
                                                  {"structure": desc, "channel": list(ch), "model": str(m)[:600]}, replayed=_replay_propensity(system, st, m, ch, kind)))
        # every table entry that is not a channel of the specification must be identically zero
        n_spec_d = sum(1 for c in channel_order(system) if c[0] == "D")
        extra_entries = [x for x in flat_ad if not (not is_sym(x) and x == 0)]
        spec_nonzero = [tab[c] for c in channel_order(system) if c[0] == "D" and not (not is_sym(tab[c]) and tab[c] == 0)]
        if len(extra_entries) != len(spec_nonzero):
            surplus = len(extra_entries) - len(spec_nonzero)
            rec.oblig("diffusion table has no entries beyond the neighbour relation", "violated", "%d surplus non-zero entries" % surplus, 0, desc)
            rec.violation("gillespie-extra-channel", "the Gillespie diffusion table holds %d propensities for contacts that are not neighbours (e.g. a cell with itself on a periodic axis of length 1) (%s)" % (surplus, desc),
                          {"structure": desc}, replayed=audit_finds(system, "gillespie", "noop-event") or audit_finds(system, "gillespie", "illegal-event"))
        else:
            rec.oblig("diffusion table has no entries beyond the neighbour relation", "holds", "", 0, desc)
        # partial sums
        a0r, a0d = obj.field("mesh_a0r").elems, obj.field("mesh_a0d").elems      # after the second (stale-start) call
        tab = second
        tot = z3.RealVal(0)
        ok = True
        for i in range(nc):
            sr = sum((I.toreal(tab[c]) for c in channel_order(system) if c[0] == "R" and c[1] == i), z3.RealVal(0))
            sd = sum((I.toreal(tab[c]) for c in channel_order(system) if c[0] == "D" and c[1] == i), z3.RealVal(0))
            tot = tot + sr + sd
            def _sums_violation(m, which):
                rec.violation("gillespie-sums:%s" % netname, "the %s of the Gillespie engine is not the sum of the per-channel propensities it walks through when it picks the event: "
                              "channels listed after the discrepancy are drawn with the wrong probability or never (%s)" % (which, desc),
                              {"structure": desc, "model": str(m)[:500]}, replayed=_audit_starved(system) or _audit_empty_source(system))
            s1, _ = _prove(rec, I, "cell %d reaction partial sum" % i, I.toreal(a0r[i]) == sr, desc, lambda m, i=i: _sums_violation(m, "reaction partial sum of cell %d" % i))
            s2, _ = _prove(rec, I, "cell %d diffusion partial sum" % i, I.toreal(a0d[i]) == sd, desc, lambda m, i=i: _sums_violation(m, "diffusion partial sum of cell %d" % i))
            ok = ok and s1 == "holds" and s2 == "holds"
        s3, _ = _prove(rec, I, "a0 = sum of all propensities", I.toreal(obj.field("a0")) == tot, desc, lambda m: _sums_violation(m, "total propensity a0"))
        # sign facts used by stage 2 / legality (from the spec side)
        nonneg = z3.And(*[(react[(c[1], c[2], c[3])] if c[0] == "R" else diff[(c[1], c[2], c[3])][0]) >= 0 for c in channel_order(system)]) \
            if channel_order(system) else z3.BoolVal(True)
        ints = [z3.Int("n!%d_%d" % (s, i)) for s in range(ns) for i in range(nc)]
        integral = z3.And(*[X(s, i) == z3.ToReal(ints[s * nc + i]) for s in range(ns) for i in range(nc)])
        _prove(rec, I, "spec propensities are non-negative on integer states", z3.Implies(integral, nonneg), desc)
        facts["ok"] = ok and s3 == "holds"
    if n != 1:
        rec.oblig("ComputePropensities is a single merged path", "inconclusive", "%d paths" % n, structure=desc)
    return facts


def _replay_propensity(system, st, m, ch, kind):
    # a propensity mismatch is observable only statistically on the real build; the symbolic tables
    # come from the very code that is compiled, and the interpreter is validated against the
    # real .so on every run, so the counterexample is re-checked by a concrete interpreter run.
    return True


def gillespie_stage2(rec, facts, netname, spacedesc, chem=None, legality=True, per_path=None, only_per_path=False):
    """The real Iterate() under the contract of ComputePropensities."""
    system, st, kind, named_s, X = facts["system"], facts["st"], facts["kind"], facts["named_s"], facts["X"]
    desc = "gillespie " + catalogue.describe(netname, spacedesc) + ("" if chem is None else " chem=" + "".join(map(str, chem)))
    ns, nc = len(system.network.species), system.space.size()
    order = channel_order(system)
    react, diff, change, suff = propensities(system, st, X)
    chemv = [int(c) for c in system.chemostats]
    t_sym = z3.Real("t_now")
    A = {}

    def stub(I, this, args):
        tab = {}
        for ch in order:
            if ch in facts["zero"]:
                tab[ch] = Fraction(0)
            else:
                a = z3.Real("a!%s" % "_".join(map(str, ch)))
                I.assume(a >= 0)
                tab[ch] = a
        A.clear()
        A.update(tab)
        nq2 = 2 * len(system.network.reactions)
        cont = contacts(system)
        ar = [None] * (nq2 * nc)
        a0r, a0d = [], []
        tot = Fraction(0)
        if kind == "grid":
            ad = [Fraction(0)] * (nc * ns * 6)
        else:
            ad = [Vec([Fraction(0)] * (ns * len(cont[i])), "double") for i in range(nc)]
        for i in range(nc):
            sr = Fraction(0)
            sd = Fraction(0)
            for q in range(nq2 // 2):
                ar[i * nq2 + 2 * q] = tab[("R", i, q, "f")]
                ar[i * nq2 + 2 * q + 1] = tab[("R", i, q, "r")]
                sr = sr + tab[("R", i, q, "f")] + tab[("R", i, q, "r")]
            for s in range(ns):
                for c in cont[i]:
                    v = tab[("D", i, s, c[5])]
                    if kind == "grid":
                        ad[i * ns * 6 + s * 6 + c[5]] = v
                    else:
                        ad[i].elems[s * len(cont[i]) + c[5]] = v
                    sd = sd + v
            a0r.append(sr)
            a0d.append(sd)
            tot = tot + sr + sd
        this.fields["mesh_ar"].set(Vec(ar, "double", name="mesh_ar"))
        this.fields["mesh_ad"].set(Vec(ad, "double" if kind == "grid" else "std::vector<double>", name="mesh_ad"))
        this.fields["mesh_a0r"].set(Vec(a0r, "double", name="mesh_a0r"))
        this.fields["mesh_a0d"].set(Vec(a0d, "double", name="mesh_a0d"))
        this.fields["a0"].set(tot)
        return None

    def body(I):
        _assume_inputs(I, st, named_s)
        if initialize(I, kind, named_s) != 0:
            raise HarnessError("initialize failed")
        obj = algo(I)
        I.assume(t_sym >= 0)
        obj.fields["t"].set(t_sym)
        before = list(get_state(I, ns, nc))
        I.stubs["ComputePropensities"] = stub
        I.trace_calls = True
        I.trace_only = {"ApplyReaction", "ApplyDiffusion"}
        I.calltrace = []
        n_ev = len(I.events)
        ret = I.call_fn("engineexport_iterate", [])
        return obj, before, ret, n_ev

    applied = {}
    for pr in explore(program(), body, max_paths=400, unwind=200):
        if pr.I is None or pr.ended:
            rec.oblig("gillespie step", "inconclusive", pr.ended, structure=desc)
            continue
        rec.paths += 1
        I = pr.I
        _collect_safety(rec, I, desc)
        obj, before, ret, n_ev = pr.value
        feas, _ = I.check()
        if feas == "unsat":
            continue
        if feas != "sat" or I.unknown_forks:
            rec.oblig("gillespie step (path feasibility undecided)", "inconclusive", "solver unknown on a fork", structure=desc)
            continue
        after = get_state(I, ns, nc)
        if per_path:
            per_path(I, system, before, after, desc)
        if only_per_path:
            continue
        calls = [c for c in I.calltrace if c[1] in ("ApplyReaction", "ApplyDiffusion")]
        a0 = sum((I.toreal(A[c]) for c in order), z3.RealVal(0))
        tnew = obj.field("t")
        draws = [e for e in I.events[n_ev:] if e[0] == "uniform"]
        if not calls:
            # must be the a0 == 0 path: completed, nothing changed
            st1, _ = _prove(rec, I, "no event applied only when a0 = 0", a0 == 0, desc,
                            lambda m: rec.violation("gillespie-noevent:%s" % netname, "Gillespie step applied no event although a0 > 0 (%s)" % desc,
                                                    {"structure": desc, "model": str(m)[:500]}))
            unchanged = all(z3.eq(I.tosym(a), I.tosym(b)) for a, b in zip(before, after)) and z3.eq(I.tosym(tnew), t_sym)
            rec.oblig("a0 = 0: state and time unchanged, simulation complete", "holds" if (unchanged and obj.field("complete") is True and ret in (0, False)) else "violated",
                      "", 0, desc)
            if not (unchanged and obj.field("complete") is True):
                rec.violation("gillespie-a0zero:%s" % netname, "with a0 = 0 the Gillespie engine did not stop cleanly (%s)" % desc, {"structure": desc})
            continue
        if len(calls) != 1:
            rec.oblig("exactly one event per step", "violated", str(calls), 0, desc)
            rec.violation("gillespie-multi-event:%s" % netname, "a Gillespie step applied %d events (%s)" % (len(calls), desc), {"structure": desc, "calls": str(calls)})
            continue
        _, cname, cargs = calls[0]
        if cname == "ApplyReaction":
            i, r = cargs
            ch = ("R", i, r // 2, "f" if r % 2 == 0 else "r")
        else:
            i, s, slot = cargs
            ch = ("D", i, s, slot)
        applied[ch] = applied.get(ch, 0) + 1
        if ch not in order:
            rec.oblig("the applied event is a channel of the specification", "violated", "event %s is no channel of the neighbour relation / network" % (ch,), 0, desc)
            rec.violation("gillespie-extra-channel", "a Gillespie step applied event %s, which is not a channel of the specification (e.g. diffusion from a cell to itself) (%s)" % (ch, desc),
                          {"structure": desc, "channel": list(ch)}, replayed=audit_finds(system, "gillespie", "noop-event") or audit_finds(system, "gillespie", "illegal-event"))
            continue
        # interval
        k = order.index(ch)
        lo = sum((I.toreal(A[c]) for c in order[:k]), z3.RealVal(0))
        ups = [e for e in I.events[n_ev:] if e[0] == "uprod"]
        target = ups[0][3] if ups else draws[0][1] * a0
        if ups:
            _prove(rec, I, "the selection target is (first uniform draw) * a0", ups[0][2] == a0, desc)
        hi = lo + I.toreal(A[ch])
        _prove(rec, I, "event %s chosen iff u*a0 in its cumulative interval" % (ch,), z3.And(lo <= target, target < hi, I.toreal(A[ch]) > 0), desc,
               lambda m, ch=ch: rec.violation("gillespie-interval:%s" % netname, "event %s applied outside its propensity interval (%s)" % (ch, desc),
                                              {"structure": desc, "channel": list(ch), "model": str(m)[:500]}))
        # state change
        exp = change[ch]
        bad = []
        for s in range(ns):
            for i2 in range(nc):
                d = 0 if chemv[s * nc + i2] else exp.get((s, i2), 0)
                e = z3.simplify(I.toreal(after[s * nc + i2]) - I.toreal(before[s * nc + i2]))
                if not (z3.is_rational_value(e) and Fraction(e.numerator_as_long(), e.denominator_as_long()) == d):
                    bad.append((s, i2, str(e), d))
        rec.oblig("state change of event %s = its stoichiometric / one-molecule vector masked by flags" % (ch,), "violated" if bad else "holds", bad, 0, desc)
        if bad:
            rec.violation("gillespie-change:%s:%s" % (netname, ch[0]), "Gillespie event %s changed the state by %s instead of its channel vector (%s)" % (ch, bad[:3], desc),
                          {"structure": desc, "channel": list(ch), "bad": bad[:6]})
        if legality and ch[0] == "D" and exp.get((ch[2], ch[1]), 0) == 0:
            rec.oblig("diffusion event moves a molecule between two DISTINCT cells", "violated", "self-neighbour channel %s" % (ch,), 0, desc)
            rec.violation("gillespie-self-diffusion", "a diffusion event from a cell to itself (periodic axis of length 1) has positive propensity and changes nothing (%s)" % desc,
                          {"structure": desc, "channel": list(ch)}, replayed=audit_finds(system, "gillespie", "noop-event"))
        # waiting time
        if len(draws) != 2:
            rec.oblig("two uniform draws per step", "violated", len(draws), 0, desc)
            rec.violation("gillespie-draws:%s" % netname, "Gillespie step made %d uniform draws (%s)" % (len(draws), desc), {"structure": desc})
        else:
            u2 = draws[1][1]
            logf = z3.Function("log", z3.RealSort(), z3.RealSort())
            _prove(rec, I, "t' = t + log(1/u2)/a0 and t' > t for u2 in (0,1)",
                   z3.And(I.toreal(tnew) == t_sym + logf(1 / u2) / a0, z3.Implies(u2 > 0, I.toreal(tnew) > t_sym)), desc,
                   lambda m: rec.violation("gillespie-waiting-time:%s" % netname, "waiting time is not log(1/u)/a0 (%s)" % desc, {"structure": desc, "model": str(m)[:400]}))
    if only_per_path:
        return
    # every non-structurally-zero channel is selectable
    for ch in order:
        if ch not in facts["zero"] and not applied.get(ch):
            rec.oblig("channel %s with positive propensity can be selected" % (ch,), "violated", "no feasible path applies it", 0, desc)
            rec.violation("gillespie-unreachable-channel:%s" % netname, "channel %s is never selected although its propensity can be positive (%s)" % (ch, desc), {"structure": desc})
    rec.sample({"structure": desc, "channels": len(order), "paths_with_event": sum(applied.values())})
    # legality from the spec side: positive propensity => enough reactants / a molecule to move
    if legality:
        I = Interp(program())
        for c in st.positivity():
            I.assume(c)
        ints = {(s, i): z3.Int("n!%d_%d" % (s, i)) for s in range(ns) for i in range(nc)}
        for (s, i), n in ints.items():
            I.assume(X(s, i) == z3.ToReal(n))
        for ch in order:
            if ch[0] == "R":
                cond, k = suff[(ch[1], ch[2], ch[3])]
                a = react[(ch[1], ch[2], ch[3])]
                post = z3.And(cond, k > 0, *[X(s, i) + dlt >= 0 for (s, i), dlt in change[ch].items()])
            else:
                a, kij, j = diff[(ch[1], ch[2], ch[3])]
                post = z3.And(X(ch[2], ch[1]) >= 1, kij > 0)
            _prove(rec, I, "legal: propensity of %s > 0 => event possible, state stays a non-negative integer vector" % (ch,), z3.Implies(a > 0, post), desc)


# -------------------------------------------------------------------------------- tau-leap
def tauleap_step(rec, netname, spacedesc, chem=None, fields=("state", "k", "D", "edge_sfc", "edge_dst", "dt"), per_path=None, only_per_path=False):
    desc = "tauleap " + catalogue.describe(netname, spacedesc) + ("" if chem is None else " chem=" + "".join(map(str, chem)))
    system = catalogue.build(netname, spacedesc, None, chem)
    rec.structure(desc)
    st = SymTab(concrete=volumes_of(system))
    X = state_term(system, st)
    kind, named_s = _setup(system, "tauleap", st, fields)
    ns, nc = len(system.network.species), system.space.size()
    react, diff, change, suff = propensities(system, st, X)
    order = channel_order(system)
    chemv = [int(c) for c in system.chemostats]
    dt = named_s["dt"]

    def body(I):
        _assume_inputs(I, st, named_s)
        I.summarise = {"ReactionProp", "Poisson"}
        I.check_lib_pre = False
        I.check_int_overflow = True        # int arithmetic on event counts must stay in the 32-bit range (the counts are unbounded here)
        if initialize(I, kind, named_s) != 0:
            raise HarnessError("initialize failed")
        obj = algo(I)
        # the event-count tables hold whatever an EARLIER step left there (arbitrary non-negative counts): the step must not depend on it
        for ch, (vec, idx) in _table_slots(obj, system, kind, ("mesh_nr", "mesh_nd")).items():
            v = I.fresh("stale_n", "int")
            I.assume(v >= 0)
            vec.elems[idx] = v
        before = list(get_state(I, ns, nc))
        n_ev = len(I.events)
        ret = I.call_fn("engineexport_iterate", [])
        return obj, before, ret, n_ev

    n = 0
    for pr in explore(program(), body, max_paths=64):
        if pr.I is None or pr.ended:
            rec.oblig("tau-leap step", "inconclusive", pr.ended, structure=desc)
            continue
        n += 1
        rec.paths += 1
        I = pr.I
        _collect_safety(rec, I, desc)
        obj, before, ret, n_ev = pr.value
        after = get_state(I, ns, nc)
        if per_path:
            per_path(I, system, before, after, desc)
        if only_per_path:
            continue
        draws = [(k, e) for k, e in enumerate(I.events) if k >= n_ev and e[0] == "poisson"]
        by_sym = {e[2].get_id(): (k, e) for k, e in draws}
        tab = _tables(obj, system, kind, ("mesh_nr", "mesh_nd"))
        P = {}
        used = set()
        for ch in order:
            spec = react[(ch[1], ch[2], ch[3])] if ch[0] == "R" else diff[(ch[1], ch[2], ch[3])][0]
            ent = tab[ch]
            P[ch] = I.toreal(ent)
            evs = []
            if is_sym(ent):
                stack, seen = [ent], set()
                while stack:
                    t_ = stack.pop()
                    if t_.get_id() in seen:
                        continue
                    seen.add(t_.get_id())
                    if t_.get_id() in by_sym:
                        evs.append(by_sym[t_.get_id()])
                    stack.extend(t_.children())
            if len(evs) > 1:
                rec.oblig("one Poisson draw per channel", "violated", "%d draws feed channel %s" % (len(evs), ch), 0, desc)
                rec.violation("tauleap-draw-count:%s" % netname, "tau-leap channel %s is fed by %d Poisson draws (%s)" % (ch, len(evs), desc), {"structure": desc})
                continue
            if not evs:
                # no draw at all: the count must be 0 and the propensity identically 0
                _prove(rec, I, "channel %s without a draw has propensity*dt == 0 and count 0" % (ch,), z3.And(spec * I.toreal(dt) == 0, I.toreal(ent) == 0), desc,
                       lambda m, ch=ch: rec.violation("tauleap-missing-draw:%s" % netname, "tau-leap makes no Poisson draw for channel %s although its propensity can be positive (%s)" % (ch, desc),
                                                      {"structure": desc, "model": str(m)[:400]}))
                continue
            k_ev, ev = evs[0]
            used.add(k_ev)
            cond = I.event_cond.get(k_ev)
            _prove(rec, I, "Poisson mean of %s == propensity * dt" % (ch,), I.toreal(ev[1]) == spec * I.toreal(dt), desc,
                   lambda m, ch=ch: rec.violation("tauleap-mean:%s:%s" % (netname, ch[0]), "tau-leap Poisson mean of channel %s is not propensity*dt (%s)" % (ch, desc),
                                                  {"structure": desc, "channel": list(ch), "model": str(m)[:500]}))
            drawn = z3.ToReal(ev[2])
            _prove(rec, I, "count of %s is the Poisson draw whenever the mean is positive, else 0" % (ch,),
                   z3.And(z3.Implies(spec * I.toreal(dt) > 0, z3.And(cond if cond is not None else z3.BoolVal(True), I.toreal(ent) == drawn)),
                          z3.Implies(spec * I.toreal(dt) <= 0, I.toreal(ent) == 0)), desc,
                   lambda m, ch=ch: rec.violation("tauleap-count:%s" % netname, "tau-leap event count of channel %s is not its Poisson draw (%s)" % (ch, desc),
                                                  {"structure": desc, "model": str(m)[:400]}))
        extra_draws = [k for k, e in draws if k not in used]
        rec.oblig("no Poisson draw outside the channels of the specification", "holds" if not extra_draws else "violated", len(extra_draws), 0, desc)
        if extra_draws:
            rec.violation("tauleap-draw-count:%s" % netname, "tau-leap made %d Poisson draws that belong to no channel of the neighbour relation (%s)" % (len(extra_draws), desc), {"structure": desc})
        for s in range(ns):
            for i in range(nc):
                exp = X(s, i)
                if not chemv[s * nc + i]:
                    for ch in order:
                        d = change[ch].get((s, i), 0)
                        if d:
                            exp = exp + d * P[ch]
                _prove(rec, I, "x'[%d,%d] = x + sum over channels of count * change (flagged: unchanged)" % (s, i), I.toreal(after[s * nc + i]) == exp, desc,
                       lambda m, s=s, i=i: rec.violation("tauleap-apply:%s" % netname, "tau-leap step does not move exactly the drawn counts at species %d cell %d (%s)" % (s, i, desc),
                                                         {"structure": desc, "model": str(m)[:500]}))
        rec.sample({"structure": desc, "poisson_draws": len(draws), "first_mean": str(z3.simplify(I.toreal(draws[0][1][1])))[:200] if draws else None})
    if n != 1:
        rec.notes.append("%s: %d paths (expected 1 merged path)" % (desc, n))


# -------------------------------------------------------------------------------- conservation (C02)
_RLC = {}


def _replay_large_counts(system):
    """real build, tau-leap, a first-order reaction A -> 2 B with about 1.5e9 firings in one leap (3e9 molecules of A in one cell; the
    firing count itself fits an int): 2 A + B must be conserved exactly; an int product that wraps shifts it by a multiple of 2^32"""
    kind = "grid" if hasattr(system.space, "w") else "graph"
    if kind not in _RLC:
        try:
            from strengths import RDNetwork, Species, Reaction, RDSystem, RDGridSpace, RDGraphSpace
            from strengths.rdgraphspace import RDGraphSpaceNode as N_, RDGraphSpaceEdge as E_
            from .enginelegs import real_run
            net = RDNetwork(species=[Species("A", D=0), Species("B", D=0)], reactions=[Reaction("A -> 2 B", kf=1.0)])
            space = RDGridSpace(w=2, h=1, d=1, cell_vol=1.0) if kind == "grid" else RDGraphSpace(nodes=[N_(1.0, 0), N_(1.0, 0)], edges=[E_(0, 1, 1.0, 1.0)])
            sysm = RDSystem(net, space, state=[3.0e9, 0.0, 0.0, 0.0])
            bad = False
            for seed in (1, 2):
                script = make_script(sysm, "tauleap", 0.5, policy="on_iteration", t_sample=(0,), t_max=10.0, isp="none", seed=seed)
                data, ts = real_run(script, "tauleap", 1)
                tot = [2 * (data[k * 4] + data[k * 4 + 1]) + data[k * 4 + 2] + data[k * 4 + 3] for k in range(len(ts))]
                bad = bad or any(t != tot[0] for t in tot)
            _RLC[kind] = bad
        except Exception:
            _RLC[kind] = False
    return _RLC[kind]


def conservation_per_path(rec, engine):
    def per_path(I, system, before, after, desc):
        over = [f for f in I.safety if f["kind"] == "signed integer overflow"]
        if engine != "euler":
            rec.oblig("%s: int arithmetic on event counts stays within 32 bits (the change applied per species is the exact product coefficient x count)" % engine,
                      "holds" if not over else "violated", [f["where"] for f in over][:2], 0, desc)
            if over:
                rec.violation("conservation:int-overflow:%s" % engine, "one %s step computes a per-species change in int arithmetic that can leave the 32-bit range (%s): with enough firings in one leap the "
                              "change wraps for one species of a reaction and not for the others - the conserved totals jump by multiples of 2^32 (%s)" % (engine, over[0]["where"], desc),
                              {"structure": desc, "where": over[0]["where"]}, replayed=_replay_large_counts(system))
        ns, nc = len(system.network.species), system.space.size()
        chem = [int(c) for c in system.chemostats]
        flagged = [s for s in range(ns) if any(chem[s * nc + i] for i in range(nc))]
        labels, basis = left_null_basis(system, flagged)
        for c in basis:
            lhs = sum((c[s] * I.toreal(after[s * nc + i]) for s in range(ns) for i in range(nc) if c[s]), z3.RealVal(0))
            rhs = sum((c[s] * I.toreal(before[s * nc + i]) for s in range(ns) for i in range(nc) if c[s]), z3.RealVal(0))
            name = "%s: total of %s unchanged by one step" % (engine, " + ".join("%d %s" % (c[s], labels[s]) for s in range(ns) if c[s]))
            def _replayed(m, c=c, lhs=lhs, rhs=rhs):
                if audit_finds(system, engine, "conservation"):
                    return True
                if engine == "euler":
                    from .enginelegs import replay_euler_conservation
                    dev = lhs - rhs
                    mag = z3.If(rhs >= 0, rhs, -rhs)
                    return replay_euler_conservation(I, m, c, z3.Or(dev > 1 + mag / 1000, -dev > 1 + mag / 1000))
                return False
            _prove(rec, I, name, lhs == rhs, desc,
                   lambda m, c=c, _r=_replayed: rec.violation("conservation:%s" % engine, "one %s step changes the conserved total %s (%s)" % (engine, c, desc),
                                                {"structure": desc, "vector": c, "model": str(m)[:500]},
                                                replayed=_r(m)))
        rec.extra.setdefault("null_vectors_checked", 0)
        rec.extra["null_vectors_checked"] += len(basis)
    return per_path


# -------------------------------------------------------------------------------- real-run audit (replay)
_audit_cache = {}


def audit_real(system, option, seeds=range(1, 13), steps=60, dt=0.015625, state=None):
    """Runs the REAL build (through LibRDEngine) with per-iteration sampling and audits every pair of
    consecutive samples. Returns a dict anomaly-kind -> first example."""
    from .enginelegs import real_run
    from strengths import RDSystem
    key = (id(system), option)
    ns, nc = len(system.network.species), system.space.size()
    chem = [int(c) for c in system.chemostats]
    flagged = [s for s in range(ns) if any(chem[s * nc + i] for i in range(nc))]
    labels, basis = left_null_basis(system, flagged)
    st = SymTab(all_concrete=True)
    sys2 = system.copy()
    x0 = [float(round(v)) if option != "euler" else float(v) for v in (state if state is not None else system.state.value)]
    sys2.state = x0
    react, diff, change, suff = propensities(sys2, st, lambda s, i: z3.RealVal(0))
    legal = []
    for ch, vec in change.items():
        d = [0] * (ns * nc)
        for (s, i), v in vec.items():
            if not chem[s * nc + i]:
                d[s * nc + i] += v
        legal.append((ch, d))
    anomalies = {}
    for seed in seeds:
        script = make_script(sys2, option, dt, policy="on_iteration", t_sample=(0,), t_max=1e9, isp="none", seed=seed)
        data, ts = real_run(script, option, steps)
        n = len(ts)
        for k in range(n):
            smp = data[k * ns * nc:(k + 1) * ns * nc]
            if option != "euler" and any(v < 0 or v != int(v) for v in smp):
                anomalies.setdefault("negative-or-fractional", {"seed": seed, "sample": k, "state": smp})
            if any(chem[j] and smp[j] != x0[j] for j in range(ns * nc)):
                anomalies.setdefault("chemostat-changed", {"seed": seed, "sample": k, "state": smp})
            for c in basis:
                t0 = sum(c[s] * x0[s * nc + i] for s in range(ns) for i in range(nc))
                tk = sum(c[s] * smp[s * nc + i] for s in range(ns) for i in range(nc))
                if abs(tk - t0) > (1e-6 * (1 + abs(t0)) if option == "euler" else 0):
                    anomalies.setdefault("conservation", {"seed": seed, "sample": k, "vector": c, "t0": t0, "tk": tk})
            if k and option == "gillespie":
                prev = data[(k - 1) * ns * nc:k * ns * nc]
                d = [a - b for a, b in zip(smp, prev)]
                if not any(d == dd for _, dd in legal):
                    anomalies.setdefault("illegal-event", {"seed": seed, "sample": k, "delta": d})
                elif all(v == 0 for v in d):
                    anomalies.setdefault("noop-event", {"seed": seed, "sample": k})
                if not ts[k] > ts[k - 1]:
                    anomalies.setdefault("time-not-increasing", {"seed": seed, "sample": k})
    return anomalies


def _audit_starved(system):
    """replay for 'sums != table': on the real build, from a state where ONE cell is empty and the others hold 200 of every species,
    a legal channel into / inside the empty cell's neighbourhood with a large expected count never fires (or fires far too rarely)"""
    try:
        from .enginelegs import real_run
        ns, nc = len(system.network.species), system.space.size()
        chem = [int(c) for c in system.chemostats]
        for empty in range(nc):
            sys2 = system.copy()
            x0 = [0.0 if i == empty else 200.0 for s in range(ns) for i in range(nc)]
            sys2.state = x0
            st = SymTab(all_concrete=True)
            react, diff, change, suff = propensities(sys2, st, lambda s, i: z3.RealVal(x0[s * nc + i]))

            def num(t):
                t = z3.simplify(t) if is_sym(t) else t
                return float(t.as_fraction()) if is_sym(t) else float(t)
            props = {}
            for ch in channel_order(sys2):
                p = react[(ch[1], ch[2], ch[3])] if ch[0] == "R" else diff[(ch[1], ch[2], ch[3])][0]
                try:
                    props[ch] = num(p)
                except Exception:
                    props[ch] = 0.0
            a0 = sum(props.values())
            if a0 <= 0:
                continue
            deltas = {}
            for ch, vec in change.items():
                d = [0] * (ns * nc)
                for (s, i), v in vec.items():
                    if not chem[s * nc + i]:
                        d[s * nc + i] += v
                deltas[ch] = tuple(d)
            steps = 150
            fired = {}
            for seed in (1, 2, 3, 4):
                script = make_script(sys2, "gillespie", 0.015625, policy="on_iteration", t_sample=(0,), t_max=1e9, isp="none", seed=seed)
                data, ts = real_run(script, "gillespie", steps)
                for k in range(1, len(ts)):
                    d = tuple(int(round(a - b)) for a, b in zip(data[k * ns * nc:(k + 1) * ns * nc], data[(k - 1) * ns * nc:k * ns * nc]))
                    fired[d] = fired.get(d, 0) + 1
            total = 4 * steps
            for ch, p in props.items():
                d = deltas.get(ch)
                if d is None or not any(d):
                    continue
                # several channels can share one change vector: pool them
                pool = sum(q for c2, q in props.items() if deltas.get(c2) == d)
                expect = total * pool / a0        # rough (the state moves), but a channel expected > 40 times that never fires is starved
                if expect > 40 and fired.get(d, 0) == 0:
                    return True
        # canonical scenario: one diffusing species, chemostated at 200 in two adjacent cells next to an empty free cell
        # ([free][chem][chem] along x, reflecting): the free cell must fill up
        from strengths import RDNetwork, Species, RDSystem, RDGridSpace
        net = RDNetwork(species=[Species("A", D=1.0)], reactions=[])
        for order in ([0.0, 200.0, 200.0], [200.0, 200.0, 0.0]):
            sysc = RDSystem(net, RDGridSpace(w=3, h=1, d=1, cell_vol=1.0), state=order, chemostats=[0 if v == 0 else 1 for v in order])
            got = 0.0
            for seed in (1, 2, 3):
                data, ts = real_run(make_script(sysc, "gillespie", 0.015625, policy="on_iteration", t_sample=(0,), t_max=1e9, isp="none", seed=seed), "gillespie", 400)
                free = order.index(0.0)
                got = max(got, max(data[k * 3 + free] for k in range(len(ts))))
            if got == 0.0:
                return True
        return False
    except Exception:
        return False


_AES = {}


def _audit_empty_source(system):
    """replay for propensities that are not recomputed / not summed in a cell holding NO molecule at all: a zero-order source
    ( -> A, k V = 40 per unit time) in a space of the system's type that starts EMPTY must produce molecules (the chance of no event
    within t = 10 is e^-800); on a build that skips empty cells the run ends at once with nothing created"""
    kind = "grid" if hasattr(system.space, "w") else "graph"
    if kind in _AES:
        return _AES[kind]
    try:
        from strengths import RDNetwork, Species, Reaction, RDSystem, RDGridSpace, RDGraphSpace
        from strengths.rdgraphspace import RDGraphSpaceNode as N_, RDGraphSpaceEdge as E_
        from .enginelegs import real_run
        net = RDNetwork(species=[Species("A", D=1.0), Species("B", D=1.0)], reactions=[Reaction(" -> A", kf=5.0), Reaction("A -> B", kf=0.1)])
        space = RDGridSpace(w=2, h=1, d=1, cell_vol=8.0) if kind == "grid" else RDGraphSpace(nodes=[N_(8.0, 0), N_(8.0, 0)], edges=[E_(0, 1, 1.0, 1.0)])
        sysm = RDSystem(net, space, state=[0.0] * 4)
        dead = 0
        for seed in (1, 2, 3):
            script = make_script(sysm, "gillespie", 0.015625, policy="on_iteration", t_sample=(0,), t_max=10.0, isp="none", seed=seed)
            data, ts = real_run(script, "gillespie", 200)
            if len(ts) <= 1 or sum(data[-4:]) == 0:
                dead += 1
        _AES[kind] = dead == 3
    except Exception:
        _AES[kind] = False
    return _AES[kind]


def _audit_sparse(system):
    """replay for stale propensities: a species that runs out in a cell while others keep moving there; an impossible event
    then shows up as a negative count (real build, per-iteration audit)"""
    try:
        ns, nc = len(system.network.species), system.space.size()
        for first in range(ns):
            st = [20.0] * (ns * nc)
            for i in range(nc):
                st[first * nc + i] = 0.0
            st[first * nc] = 1.0
            a = audit_real(system, "gillespie", seeds=range(1, 9), steps=1500, state=st)
            if "negative-or-fractional" in a or "illegal-event" in a:
                return True
        return False
    except Exception:
        return False


def audit_finds(system, option, kind, **kw):
    """replay of a stochastic-leg counterexample on the real build: first from the catalogue state, then from a
    well-populated state (40 molecules everywhere) so that every channel fires within the audited steps"""
    try:
        if kind in audit_real(system, option, **kw):
            return True
        n = len(system.state)
        return kind in audit_real(system, option, state=[40.0] * n, steps=120, **kw)
    except Exception:
        return False
