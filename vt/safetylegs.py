"""Lifecycle / memory-safety legs (C10, C11, parts of C08): call sequences at the exported C ABI executed
symbolically; every failed safety obligation is concretised from the solver model and replayed in
the sanitizer build of the real sources (sandriver.py)."""
from fractions import Fraction

import z3

from .common import HarnessError
from . import catalogue
from .glue import record_setup
from .oracle import SymTab
from .enginelegs import make_script, symbolize, volumes_of
from .samplinglegs import TS_TAGS
from .cxx.engine import program, initialize, algo, fetch_output, explore, is_sym, Vec, Ptr, frac, model_value
from . import sandriver


def concretize(named_s, model):
    out = {}
    for k, v in named_s.items():
        if isinstance(v, list):
            out[k] = [float(model_value(model, x)) if is_sym(x) else (float(x) if isinstance(x, Fraction) else x) for x in v]
        elif is_sym(v):
            out[k] = float(model_value(model, v))
        elif isinstance(v, Fraction):
            out[k] = float(v)
        else:
            out[k] = v
    return out


def probe(I, ns, nc):
    """time, number of records and state of the live simulation, through the ABI"""
    t = I.call_fn("engineexport_get_time", [])
    n = I.call_fn("engineexport_get_nsamples", [])
    buf = Vec([None] * (ns * nc), "double", raw=True, name="state_out")
    I.call_fn("engineexport_get_state", [Ptr(buf)])
    return (t, n, tuple(buf.elems))


def do_call(I, kind, named_s, call, log, ns, nc, probes=False, other=None):
    name, _, arg = call.partition(":")
    if name == "init2":
        log.append(("init", initialize(I, other[0], other[1])))
        return
    if probes and name in ("iterate", "iterate_n", "run"):
        log.append(("probe", probe(I, ns, nc)))
        do_call(I, kind, named_s, call, log, ns, nc, False)
        log.append(("probe", probe(I, ns, nc)))
        return
    if name == "init":
        log.append(("init", initialize(I, kind, named_s)))
    elif name == "iterate":
        log.append(("iterate", I.truth(I.call_fn("engineexport_iterate", []))))
    elif name == "iterate_n":
        if arg == "sym":
            # the number of iterations is a solver variable in [0, 2]: the loop forks on it (0 = "no iteration at all")
            n_it = I.fresh("n_iterations", "int")
            I.assume(z3.And(n_it >= 0, n_it <= 2))
            log.append(("iterate_n", I.truth(I.call_fn("engineexport_iterate_n", [n_it]))))
        else:
            log.append(("iterate_n", I.truth(I.call_fn("engineexport_iterate_n", [int(arg)]))))
    elif name == "run":
        log.append(("run", I.truth(I.call_fn("engineexport_run", [int(arg)]))))
    elif name == "fetch2":
        a = fetch_output(I, ns, nc)
        b = fetch_output(I, ns, nc)
        log.append(("fetch", a))
        log.append(("fetch", b))
    elif name == "sample":
        I.call_fn("engineexport_sample", [])
        log.append(("sample", None))
    elif name == "progress":
        log.append(("progress", I.call_fn("engineexport_get_progress", [])))
    elif name == "finalize":
        I.call_fn("engineexport_finalize", [])
    elif name == "fetch":
        log.append(("fetch", fetch_output(I, ns, nc)))
    else:
        raise HarnessError("unknown call " + call)


def driver_calls(calls, other=None, primary=None):
    out = []
    on_other = False
    for c in calls:
        name, _, arg = c.partition(":")
        if name == "init2":
            out.append(("next", other[0], other[1]))
            out.append("init")
            on_other = True
            continue
        if name == "init" and on_other and primary is not None:
            out.append(("next", primary[0], primary[1]))       # back to the first script
            out.append("init")
            on_other = False
            continue
        if name == "fetch2":
            out += ["fetch", "fetch"]
            continue
        out.append(name if not arg else "%s %s" % (name, arg))
    return out


def sym_sequence(rec, scen, on_path=None):
    """scen: dict(net, space, option, policy, isp, n_req, calls, fields, tmax). Returns number of paths."""
    netname, sd, option = scen["net"], scen["space"], scen["option"]
    policy, isp, n_req, calls = scen.get("policy", "on_t_sample"), scen.get("isp", "auto"), scen.get("n_req", 2), scen["calls"]
    fields = scen.get("fields", ("state", "dt", "t_sample", "t_max"))
    desc = "%s %s policy=%s isp=%s req=%d calls=%s" % (option, catalogue.describe(netname, sd), policy, isp, n_req, ",".join(calls))
    rec.structure(desc)
    system = catalogue.build(netname, sd)
    if scen.get("state") is not None:
        system.state = scen["state"]
    st = SymTab(concrete=volumes_of(system))
    ts = TS_TAGS[:n_req]
    script = make_script(system, option, 0.25, policy=policy, t_sample=ts if ts else (0,), isp=isp, t_max=scen.get("tmax", 0.6), interval=0.5)
    kind, named, _ = record_setup(script, option)
    named_s = symbolize(kind, named, st, fields)
    ns, nc = len(system.network.species), system.space.size()
    other = None
    if scen.get("other"):
        onet, osd, oopt = scen["other"]
        osys = catalogue.build(onet, osd)
        ok_, on_, _ = record_setup(make_script(osys, oopt, 0.25, policy=policy, t_sample=ts if ts else (0,), isp=isp, t_max=scen.get("tmax", 0.6), interval=0.5), oopt)
        other = (ok_, on_)
        ns, nc = max(ns, len(osys.network.species)), max(nc, osys.space.size())

    def body(I):
        for c in st.positivity():
            I.assume(c)
        I.summarise = {"ReactionProp", "Poisson"}
        # conversions of a double to int must stay in range; not asserted where the operand is built from stubbed random draws
        # (initial-state processing), whose values the stub leaves unbounded
        I.check_float_cast = (isp == "none")
        if is_sym(named_s["dt"]):
            I.assume(named_s["dt"] > Fraction(1, 8))      # a handful of steps reach t_max
        if "t_sample" in fields and n_req:
            for a, b in zip(named_s["t_sample"], named_s["t_sample"][1:]):
                I.assume(a <= b)
        if is_sym(named_s["t_max"]):
            I.assume(named_s["t_max"] < 1)
        log = []
        do_call(I, kind, named_s, "init", log, ns, nc)
        for c in calls:
            if c.startswith("fetch") and other is not None and I.global_box("global_space_type").get() is not None:
                # output buffers are sized from the script that is currently set up
                cur = algo(I)
                ns_c, nc_c = cur.field("n_species"), cur.field("n_meshes")
                do_call(I, kind, named_s, c, log, ns_c, nc_c, scen.get("probes", False), other)
                continue
            do_call(I, kind, named_s, c, log, ns, nc, scen.get("probes", False), other)
        return log

    n = 0
    unwound = 0
    for pr in explore(program(), body, max_paths=scen.get("max_paths", 300), budget_s=scen.get("budget_s", 120), unwind=scen.get("unwind", 6)):
        if pr.I is None:
            rec.oblig("sequence exploration budget", "inconclusive", pr.ended, structure=desc)
            continue
        I = pr.I
        if pr.ended and pr.ended.startswith("UNWIND"):
            unwound += 1
        n += 1
        rec.paths += 1
        report_safety(rec, I, kind, named_s, calls, desc, option, other)
        if on_path and not pr.ended:
            on_path(I, pr.value, desc, kind, named_s)
    rec.extra["paths_cut_at_unwinding_bound"] = rec.extra.get("paths_cut_at_unwinding_bound", 0) + unwound
    return n


_replayed = {}


def report_safety(rec, I, kind, named_s, calls, desc, option, other=None):
    rec.extra["safety_obligations_checked"] = rec.extra.get("safety_obligations_checked", 0) + I.n_safety_checked
    fails = list(I.safety)
    for e in I.events:
        if e[0] == "poisson" and e[3] == "violated":
            fails.append({"kind": "library precondition (poisson_distribution mean > 0)", "where": e[4], "fn": "Poisson", "detail": "mean can be 0", "model": e[5], "pc": []})
    for u in I.safety_unknown:
        rec.oblig("safety obligation %s at %s" % (u[0], u[1]), "inconclusive", u[2], structure=desc)
    if not fails:
        rec.oblig("all safety obligations of the path hold (%d checked)" % I.n_safety_checked, "holds", "", 0, desc)
        return
    for f in fails:
        sig = "safety:%s@%s" % (f["kind"], f["fn"])
        name = "%s in %s (%s)" % (f["kind"], f["fn"], f["where"])
        rec.oblig(name, "violated", f["detail"], 0, desc)
        key = (sig, desc)
        if sig in _replayed and _replayed[sig]["ok"]:
            r = _replayed[sig]
        else:
            m = f.get("model")
            if m is None:
                res, m = I.check()
                if m is None:
                    rec.oblig(name + " (no model for replay)", "inconclusive", "", 0, desc)
                    continue
            named_c = concretize(named_s, m)
            out = sandriver.run_scenario(kind, named_c, ["init"] + driver_calls(calls, other, (kind, named_c)))
            if out["status"] == "ok" and option in ("gillespie", "tauleap"):
                # which event is drawn depends on the generator: the same scenario under other seeds, and a plain long run
                for sd_ in range(1, 17):
                    nc2 = dict(named_c, seed=sd_)
                    for seq in (["init"] + driver_calls(calls, other, (kind, nc2)), ["init", "iterate_n 400", "fetch", "finalize"]):
                        out2 = sandriver.run_scenario(kind, nc2, seq)
                        if out2["status"] != "ok":
                            out = out2
                            break
                    if out["status"] != "ok":
                        break
            r = {"ok": out["status"] != "ok", "report": out["report"], "scenario": out["scenario"]}
            _replayed[sig] = r
        rec.violation(sig, "%s: %s [%s] sanitizer build: %s" % (name, f["detail"], desc, r["report"][:300].replace("\n", " | ")),
                      {"structure": desc, "scenario_file": r["scenario"], "sanitizer_report": r["report"]}, replayed=r["ok"])
