"""MANIFEST.setup_cmd: verify that the pre-installed tools the checks need are present (nothing is fetched)."""
import shutil
import subprocess
import sys


def main():
    ok = True
    for tool in ("clang++-14", "g++", "z3", "cvc5"):
        if not shutil.which(tool):
            print("missing tool:", tool)
            ok = False
    try:
        import z3
        import crosshair  # noqa
        import numpy  # noqa
        print("z3", z3.get_version_string(), "crosshair", getattr(crosshair, "__version__", "?"), "python", sys.version.split()[0])
    except Exception as e:  # noqa
        print("python tooling import failed:", e)
        ok = False
    r = subprocess.run(["clang++-14", "--version"], capture_output=True, text=True)
    print(r.stdout.splitlines()[0] if r.stdout else r.stderr[:200])
    sys.exit(0 if ok else 1)


if __name__ == "__main__":
    main()
