"""Worker process of Recorder.parallel: python3-vt -m vt.worker <module> <function> <pid> <item-json> <out.json>"""
import importlib
import json
import sys

from .common import _run_worker, seed_from_env, tier_from_env


def _tup(x):
    if isinstance(x, list):
        return tuple(_tup(v) for v in x)
    if isinstance(x, dict):
        return {k: _tup(v) for k, v in x.items()}
    return x


def main():
    mod, fn, pid, item, out = sys.argv[1:6]
    worker = getattr(importlib.import_module(mod), fn)
    d = _run_worker(worker, pid, tier_from_env(), seed_from_env(), _tup(json.loads(item)))
    with open(out + ".tmp", "w") as fh:
        json.dump(d, fh, default=str)
    import os
    os.replace(out + ".tmp", out)


if __name__ == "__main__":
    main()
