"""CrossHair driver used by py-sym: Python floats are modelled as exact reals.

CrossHair 0.0.110 forks every float between a real-based and an IEEE bit-precise representation (the
latter does not finish in z3) and caps every verdict that touched a real-based float at 'unknown'.
This driver pins float to RealBasedSymbolicFloat and turns the cap into a recorded assumption, so that
an exhausted path tree is reported as 'Confirmed over all paths' UNDER EXACT REAL ARITHMETIC.
Every py-sym verdict carries that assumption; every counterexample is replayed in plain CPython."""
import sys

from crosshair.libimpl import builtinslib as B
from crosshair import statespace as S

_orig_get = B.ModelingDirector.get


def _get(self, typ):
    if typ is float:
        self.global_representations[typ] = B.RealBasedSymbolicFloat
        return B.RealBasedSymbolicFloat
    return _orig_get(self, typ)


B.ModelingDirector.get = _get
S.StateSpace.cap_result_at_unknown = lambda self: None

from crosshair.main import main  # noqa: E402

if __name__ == "__main__":
    main(sys.argv[1:])
