"""Glue between the Python API and the C ABI.

* RecLib: recording stand-in for ctypes.CDLL -- the *real* LibRDEngine.setup() is executed and the
  argument list it hands to engineexport_initialize_{grid,graph} is captured (tag tracing).
* build_real_so / real_engine: the real shared library built from /repo's current engine sources,
  used for translator validation and for replaying counterexamples through the real code.
"""
import ctypes
import os
import subprocess
import sys

from .common import ENGINE_SRC, SRC, HarnessError, scratch

if SRC not in sys.path:
    sys.path.insert(0, SRC)

GRID_NAMES = ["w", "h", "d", "n_species", "n_reactions", "n_env", "state", "chstt", "env", "vol", "k", "sub", "sto", "D",
              "bcx", "bcy", "bcz", "n_sample", "t_sample", "policy", "interval", "t_max", "dt", "seed", "isp", "option"]
GRAPH_NAMES = ["n_nodes", "n_species", "n_reactions", "n_env", "n_edges", "edge_i", "edge_j", "edge_sfc", "edge_dst",
               "state", "chstt", "env", "vol", "k", "sub", "sto", "D", "n_sample", "t_sample", "policy", "interval",
               "t_max", "dt", "seed", "isp", "option"]


def _unpack(a):
    if isinstance(a, ctypes.Array):
        return list(a)
    if isinstance(a, (ctypes.c_int, ctypes.c_double)):
        return a.value
    if isinstance(a, ctypes.c_char_p):
        return a.value.decode()
    return a


class RecLib:
    """Recording stand-in for the ctypes.CDLL object handed to LibRDEngine."""

    class _F:
        def __init__(self, name, log):
            self.name, self.log, self.restype = name, log, None

        def __call__(self, *a):
            self.log.append((self.name, [_unpack(x) for x in a]))
            return 0

    def __init__(self):
        self.log = []

    def __getattr__(self, n):
        if n.startswith("engineexport_"):
            f = RecLib._F(n, self.log)
            setattr(self, n, f)
            return f
        raise AttributeError(n)


_DECOYS = []


def _decoys():
    if not _DECOYS:
        from strengths import RDNetwork, Species, Reaction, RDSystem, RDGridSpace, RDGraphSpace, RDScript
        from strengths.rdgraphspace import RDGraphSpaceNode as N_, RDGraphSpaceEdge as E_
        net = RDNetwork(species=[Species("B", D=3.0, density=11.0), Species("A", D=7.0, density=13.0, chstt=True), Species("C", D=5.0, density=17.0)],
                        reactions=[Reaction("2 A -> C", kf=19.0, kr=23.0), Reaction("B + C -> A", kf=29.0), Reaction(" -> B", kf=31.0)])
        _DECOYS.append(RDScript(RDSystem(net, RDGridSpace(w=1, h=2, d=2, cell_vol=3.0, boundary_conditions={"x": "periodical", "y": "periodical", "z": "periodical"})),
                                [0, 37.0, 41.0], time_step=0.75, rng_seed=4321, sampling_policy="on_interval", sampling_interval=1.75, t_max=43.0))
        _DECOYS.append(RDScript(RDSystem(net.copy(), RDGraphSpace(nodes=[N_(2.0, 0), N_(3.0, 0), N_(5.0, 0), N_(7.0, 0)], edges=[E_(0, 1, 2.0, 3.0), E_(1, 2, 5.0, 7.0), E_(2, 3, 1.5, 2.5), E_(0, 3, 4.0, 4.5)])),
                                [0, 47.0], time_step=0.625, rng_seed=8765))
    return _DECOYS


def record_setup(script, option, requires_molecules=None):
    """Run the real LibRDEngine.setup(script) against a RecLib; return (kind, dict of named ABI args)."""
    from strengths.librdengine import LibRDEngine
    if requires_molecules is None:
        requires_molecules = option in ("gillespie", "tauleap")
    lib = RecLib()
    e = LibRDEngine(lib, option=option, description="rec", requires_molecules=requires_molecules)
    # the engine OBJECT is not fresh: it has already been set up with two other scripts (a grid and a graph one, other network with
    # the same species labels, one finalized and one abandoned). What it hands to the native engine for `script` must not depend
    # on that - every engine leg of every property starts from the arrays of this third set-up.
    for decoy in _decoys():
        e.setup(decoy)
        if decoy is _DECOYS[0]:
            e.finalize()
    del lib.log[:]
    e.setup(script)
    calls = [c for c in lib.log if c[0].startswith("engineexport_initialize")]
    if len(calls) != 1:
        raise HarnessError("LibRDEngine.setup made %d initialize calls" % len(calls))
    name, vals = calls[0]
    if name.endswith("_grid"):
        if len(vals) != len(GRID_NAMES):
            raise HarnessError("engineexport_initialize_grid called with %d args" % len(vals))
        return "grid", dict(zip(GRID_NAMES, vals)), e
    if len(vals) != len(GRAPH_NAMES):
        raise HarnessError("engineexport_initialize_graph called with %d args" % len(vals))
    return "graph", dict(zip(GRAPH_NAMES, vals)), e


_so_path = None


def build_real_so(flags=("-O1",), tag="real"):
    """g++ -shared engine.cpp from the working tree (never the untracked in-tree artefact)."""
    global _so_path
    if tag == "real" and _so_path:
        return _so_path
    out = os.path.join(scratch(), "engine_%s.so" % tag)
    from .common import flock
    with flock("so_" + tag):
        if not os.path.exists(out):
            cmd = ["g++", "-std=c++11", "-fPIC", "-shared", *flags, "-I" + ENGINE_SRC, os.path.join(ENGINE_SRC, "engine.cpp"), "-o", out + ".tmp"]
            r = subprocess.run(cmd, capture_output=True, text=True)
            if r.returncode != 0:
                raise HarnessError("building the engine failed: " + r.stderr[-800:])
            os.replace(out + ".tmp", out)
    if tag == "real":
        _so_path = out
    return out


def real_engine(option, so=None):
    from strengths.librdengine import LibRDEngine
    lib = ctypes.CDLL(so or build_real_so())
    return LibRDEngine(lib, option=option, description="real build of working tree",
                       requires_molecules=option in ("gillespie", "tauleap"))
