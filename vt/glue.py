"""Glue between the Python API and the C ABI.

* RecLib: recording stand-in for ctypes.CDLL -- the *real* LibRDEngine.setup() is executed and the
  argument list it hands to engineexport_initialize_{grid,graph} is captured (tag tracing).
* build_real_so / real_engine: the real shared library built from /repo's current engine sources,
  used for translator validation and for replaying counterexamples through the real code.
"""
import ctypes
import os
import subprocess
import sys

from .common import ENGINE_SRC, SRC, HarnessError, scratch

if SRC not in sys.path:
    sys.path.insert(0, SRC)

GRID_NAMES = ["w", "h", "d", "n_species", "n_reactions", "n_env", "state", "chstt", "env", "vol", "k", "sub", "sto", "D",
              "bcx", "bcy", "bcz", "n_sample", "t_sample", "policy", "interval", "t_max", "dt", "seed", "isp", "option"]
GRAPH_NAMES = ["n_nodes", "n_species", "n_reactions", "n_env", "n_edges", "edge_i", "edge_j", "edge_sfc", "edge_dst",
               "state", "chstt", "env", "vol", "k", "sub", "sto", "D", "n_sample", "t_sample", "policy", "interval",
               "t_max", "dt", "seed", "isp", "option"]


def _unpack(a):
    if isinstance(a, ctypes.Array):
        return list(a)
    if isinstance(a, (ctypes.c_int, ctypes.c_double)):
        return a.value
    if isinstance(a, ctypes.c_char_p):
        return a.value.decode()
    return a


class RecLib:
    """Recording stand-in for the ctypes.CDLL object handed to LibRDEngine."""

    class _F:
        def __init__(self, name, log):
            self.name, self.log, self.restype = name, log, None

        def __call__(self, *a):
            self.log.append((self.name, [_unpack(x) for x in a]))
            return 0

    def __init__(self):
        self.log = []

    def __getattr__(self, n):
        if n.startswith("engineexport_"):
            f = RecLib._F(n, self.log)
            setattr(self, n, f)
            return f
        raise AttributeError(n)


def record_setup(script, option, requires_molecules=None):
    """Run the real LibRDEngine.setup(script) against a RecLib; return (kind, dict of named ABI args)."""
    from strengths.librdengine import LibRDEngine
    if requires_molecules is None:
        requires_molecules = option in ("gillespie", "tauleap")
    lib = RecLib()
    e = LibRDEngine(lib, option=option, description="rec", requires_molecules=requires_molecules)
    e.setup(script)
    calls = [c for c in lib.log if c[0].startswith("engineexport_initialize")]
    if len(calls) != 1:
        raise HarnessError("LibRDEngine.setup made %d initialize calls" % len(calls))
    name, vals = calls[0]
    if name.endswith("_grid"):
        if len(vals) != len(GRID_NAMES):
            raise HarnessError("engineexport_initialize_grid called with %d args" % len(vals))
        return "grid", dict(zip(GRID_NAMES, vals)), e
    if len(vals) != len(GRAPH_NAMES):
        raise HarnessError("engineexport_initialize_graph called with %d args" % len(vals))
    return "graph", dict(zip(GRAPH_NAMES, vals)), e


_so_path = None


def build_real_so(flags=("-O1",), tag="real"):
    """g++ -shared engine.cpp from the working tree (never the untracked in-tree artefact)."""
    global _so_path
    if tag == "real" and _so_path:
        return _so_path
    out = os.path.join(scratch(), "engine_%s.so" % tag)
    from .common import flock
    with flock("so_" + tag):
        if not os.path.exists(out):
            cmd = ["g++", "-std=c++11", "-fPIC", "-shared", *flags, "-I" + ENGINE_SRC, os.path.join(ENGINE_SRC, "engine.cpp"), "-o", out + ".tmp"]
            r = subprocess.run(cmd, capture_output=True, text=True)
            if r.returncode != 0:
                raise HarnessError("building the engine failed: " + r.stderr[-800:])
            os.replace(out + ".tmp", out)
    if tag == "real":
        _so_path = out
    return out


def real_engine(option, so=None):
    from strengths.librdengine import LibRDEngine
    lib = ctypes.CDLL(so or build_real_so())
    return LibRDEngine(lib, option=option, description="real build of working tree",
                       requires_molecules=option in ("gillespie", "tauleap"))
