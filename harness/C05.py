"""py-sym harness for C05: arithmetic on quantities is arithmetic on their SI values, or an error."""
from strengths.units import UnitValue, Units, UnitsSystem, UnitsDimensions, _units_conversion_dict

SYS = {
    "A": UnitsSystem("µm", "s", "molecule"),
    "B": UnitsSystem("mm", "min", "mmol"),
    "C": UnitsSystem("km", "h", "kmol"),
    "D": UnitsSystem("fm", "fs", "fmol"),
    "E": UnitsSystem("dmm", "cs", "dmol"),
}


def si_factor(us, dim):
    f = 1.0
    for k in ("space", "time", "quantity"):
        f *= _units_conversion_dict[k][us[k]] ** dim[k]
    return f


def si(v):
    return v.value * si_factor(v.units.sys, v.units.dim)


def close(x, y, scale):
    return abs(x - y) <= 1e-9 * scale


def _uv(a, us, d):
    return UnitValue(a, Units(SYS[us], UnitsDimensions(*d)))


def add_AB(a: float, b: float) -> bool:
    """
    pre: -1e6 < a < 1e6 and -1e6 < b < 1e6
    post: _
    """
    ua, ub = _uv(a, "A", (1, -1, 0)), _uv(b, "B", (1, -1, 0))
    r = ua + ub
    return close(si(r), si(ua) + si(ub), abs(si(ua)) + abs(si(ub))) and r.units.dim == ua.units.dim
