"""Static helpers of the C19 harness: reaction equations."""
from strengths.rdnetwork import Reaction, Species, RDNetwork
from strengths.units import UnitValue, Units, UnitsSystem, UnitsDimensions
from harness.c05lib import SYS, si, raises

SPACINGS = [("%s %s", " + ", " -> "), ("%s %s", "+", "->"), ("%s  %s", "  +  ", "  ->  "), ("%s\t%s", " +", "-> "), ("%s %s", "+ ", " ->")]


def build(sub, prod, sp, omit_one=True):
    """sub/prod: lists of (coef, label). Returns the equation text."""
    term, plus, arrow = SPACINGS[sp % len(SPACINGS)]

    def side(ts):
        out = []
        for c, l in ts:
            out.append(l if (c == 1 and omit_one) else term % (c, l))
        return plus.join(out)
    return side(sub) + arrow + side(prod)


def expected(ts, labels):
    return [sum(c for c, l in ts if l == lab) for lab in labels]


_R = list(range(10))


def stoich_ok(sub, prod, sp, labels, omit_one=True):
    # coefficients and spacing index are realised here (path enumeration over 0..9), so the parser runs on concrete text
    sub = [(_R[c], l) for c, l in sub]
    prod = [(_R[c], l) for c, l in prod]
    sp = _R[sp]
    eq = build(sub, prod, sp, omit_one)
    r = Reaction(eq)
    es, ep = expected(sub, labels), expected(prod, labels)
    if r.ssto(labels) != es or r.psto(labels) != ep:
        return False
    if r.dsto(labels) != [p - s for s, p in zip(es, ep)]:
        return False
    if r.order() != sum(es) or r.rorder() != sum(ep):
        return False
    for lab, s, p in zip(labels, es, ep):
        if int(r.substrates.get(lab, 0)) != s or int(r.products.get(lab, 0)) != p:
            return False
        if int(r.get_substrate_stoichiometry(lab)) != s or int(r.get_product_stoichiometry(lab)) != p:
            return False
    r2 = Reaction(r.to_string())
    return r2.ssto(labels) == es and r2.psto(labels) == ep


def kdims_ok(n, m):
    r = Reaction([{"A": n}, {"B": m}])
    f, b = r.kf_units_dimensions(), r.kr_units_dimensions()
    return (f["space"], f["time"], f["quantity"]) == (3 * n - 3, -1, 1 - n) and (b["space"], b["time"], b["quantity"]) == (3 * m - 3, -1, 1 - m)


def bare_units_ok(a, b, n, m, us):
    r = Reaction([{"A": n}, {"B": m}], kf=a, kr=b, units_system=SYS[us])
    ok = r.kf.value == a and r.kr.value == b
    ok = ok and r.kf.units == Units(SYS[us], UnitsDimensions(3 * n - 3, -1, 1 - n)) and r.kr.units == Units(SYS[us], UnitsDimensions(3 * m - 3, -1, 1 - m))
    ok = ok and r.kf.units.sys == SYS[us] and r.kr.units.sys == SYS[us]
    return ok


def wrong_dims_raise(a, n, s, t, q, us, which):
    # the wrong quantity written in a foreign units system and in the reaction's own (default) one, where nothing needs converting
    for u in (us, "A"):
        bad = UnitValue(a, Units(SYS[u], UnitsDimensions(s, t, q)))
        if which == "kf":
            if not raises(lambda: Reaction([{"A": n}, {"B": 1}], kf=bad, kr=0)):
                return False
        elif not raises(lambda: Reaction([{"B": 1}, {"A": n}], kf=0, kr=bad)):
            return False
    return True


def wrong_dims_raise_env(n, s, t, q, us, form):
    """the same for per-environment dictionaries: a quantity object / text of the wrong dimension under an environment key, a shared 'a,b' key or 'default'"""
    for u in (us, "A"):
        bad = UnitValue(1.5, Units(SYS[u], UnitsDimensions(s, t, q)))
        good = UnitValue(2.5, Units(SYS[u], UnitsDimensions(3 * n - 3, -1, 1 - n)))
        val = [{"e0": bad}, {"e0": good, "default": bad}, {"e0,e1": bad}, {"e0": str(bad)}, {"e0": good, "e1": bad}][form]
        if not (raises(lambda: Reaction([{"A": n}, {"B": 1}], kf=val, kr=0)) and raises(lambda: Reaction([{"B": 1}, {"A": n}], kf=0, kr=val))):
            return False
    return True


def right_dims_kept(a, n, us1, us2):
    """an explicit quantity of the right dimension keeps its physical value whatever the reaction's units system"""
    good = UnitValue(a, Units(SYS[us1], UnitsDimensions(3 * n - 3, -1, 1 - n)))
    r = Reaction([{"A": n}, {"B": 1}], kf=good, kr=0, units_system=SYS[us2])
    return abs(si(r.kf) - si(good)) <= 1e-9 * abs(si(good))


def split_ok(a, b, us):
    r = Reaction("A + 2 B -> C", kf=a, kr=b, label="x", units_system=SYS[us])
    f, v = r.split()
    labels = ["A", "B", "C"]
    ok = f.ssto(labels) == [1, 2, 0] and f.psto(labels) == [0, 0, 1] and v.ssto(labels) == [0, 0, 1] and v.psto(labels) == [1, 2, 0]
    ok = ok and f.kf.value == a and v.kf.value == b and f.kr.value == 0 and v.kr.value == 0
    ok = ok and f.kf.units == r.kf.units and v.kf.units == r.kr.units and f.label is None and v.label is None
    return ok


def K_ok(a, b, us):
    r = Reaction("A + B -> C", kf=a, kr=b, units_system=SYS[us])
    K = r.K
    if b == 0:
        return K is None
    if K is None:
        return False
    e = si(r.kf) / si(r.kr)
    d = K.units.dim
    return abs(si(K) - e) <= 1e-9 * abs(e) and (d["space"], d["time"], d["quantity"]) == (3, 0, -1)


def K_dict_ok(a, b, c):
    r = Reaction("A -> B", kf={"e0": a, "default": c}, kr={"e0": b, "e1": 0})
    K = r.K
    ok = set(K) >= {"e0", "e1", "default"}
    ok = ok and ((K["e0"] is None) == (b == 0)) and K["e1"] is None
    if b != 0:
        ok = ok and abs(K["e0"].value - a / b) <= 1e-9 * abs(a / b)
    return ok


def K_mixed_ok(a, b, form):
    """equilibrium constant when only ONE of the two constants is a per-environment dictionary"""
    if form == 0:
        r = Reaction("A -> B", kf=a, kr={"e0": b, "default": 2.0 * b})
        want = {"e0": a / b if b else None, "default": a / (2.0 * b) if b else None}
    else:
        r = Reaction("A -> B", kf={"e0": a, "e1": 3.0 * a}, kr=b)
        want = {"e0": a / b if b else None, "e1": 3.0 * a / b if b else None, "default": 0.0 if b else None}
    K = r.K
    if not isinstance(K, dict) or not set(K) >= set(want):
        return False
    for k_, w in want.items():
        if w is None:
            if K[k_] is not None:
                return False
        elif K[k_] is None or abs(K[k_].value - w) > 1e-9 * max(abs(w), 1e-300):
            return False
    return True


def network_rejects(which, pos):
    sp = [Species("A"), Species("B"), Species("C")]
    rs = [Reaction("A -> B", label="r0"), Reaction("B -> C", label="r1"), Reaction("C -> A", label="r2")]
    if which == "undeclared-substrate":
        rs[pos % 3] = Reaction("X + A -> B")
    elif which == "undeclared-product":
        rs[pos % 3] = Reaction("A -> B + X")
    elif which == "dup-species":
        sp[pos % 3] = Species(sp[(pos + 1) % 3].label)
    elif which == "dup-reaction-label":
        rs[pos % 3] = Reaction("A -> C", label=rs[(pos + 1) % 3].label)
    return raises(lambda: RDNetwork(species=sp, reactions=rs))


def label_rule(l):
    """labels must not contain white space, '+' or the '->' sequence"""
    bad = any(c.isspace() for c in l) or "+" in l or "->" in l
    rs = raises(lambda: Species(l))
    rr = raises(lambda: Reaction("A -> B", label=l))
    return (rs == bad) and (rr == bad)


def abi_stoichiometry(q, a, b, c, d, opt):
    """the vectors handed to the native engine: for the forward half of a reaction the reactant coefficients and the net change, for the
    reverse half the product coefficients and minus the net change - also when a species stands on BOTH sides (catalyst, autocatalysis)"""
    from strengths.librdengine import LibRDEngine
    from strengths.rdscript import RDScript
    from vt.glue import RecLib, GRID_NAMES
    from strengths import RDSystem, RDGridSpace, RDNetwork, Species
    sides = [({"A": a, "E": b}, {"B": c, "E": d}), ({"A": a, "B": b}, {"A": c + d}), ({"A": a, "C": b}, {"A": c, "C": d}), ({"A": a}, {"B": b, "C": c, "A": d})][q % 4]
    sub_, prod_ = sides
    net = RDNetwork(species=[Species(l) for l in "ABCE"], reactions=[Reaction([dict(sub_), dict(prod_)], kf=1.0, kr=0.5), Reaction("B -> C", kf=2.0)])
    sysm = RDSystem(net, RDGridSpace(w=2, h=1, d=1, cell_vol=8.0), state=[5.0] * 8)
    lib = RecLib()
    option = ["euler", "tauleap", "gillespie"][opt % 3]
    e = LibRDEngine(lib, option=option, requires_molecules=option != "euler")
    e.setup(RDScript(sysm, [0, 1.0]))
    name, vals = [x for x in lib.log if x[0].startswith("engineexport_initialize")][0]
    args = dict(zip(GRID_NAMES, vals))
    nr = args["n_reactions"]
    if nr != 4:
        return False
    labels = "ABCE"
    for s_, lab in enumerate(labels):
        ss, ps = sub_.get(lab, 0), prod_.get(lab, 0)
        want_sub = [ss, ps, 1 if lab == "B" else 0, 1 if lab == "C" else 0]
        want_sto = [ps - ss, ss - ps, (-1 if lab == "B" else (1 if lab == "C" else 0)), (1 if lab == "B" else (-1 if lab == "C" else 0))]
        if [int(args["sub"][s_ * nr + r]) for r in range(nr)] != want_sub:
            return False
        if [int(args["sto"][s_ * nr + r]) for r in range(nr)] != want_sto:
            return False
    return True


def _same_reaction(x, y):
    labels = ["A", "B", "C"]
    def kk(k):
        if isinstance(k, dict):
            return sorted((e, si(v)) for e, v in k.items())
        return si(k)
    return x.ssto(labels) == y.ssto(labels) and x.psto(labels) == y.psto(labels) and kk(x.kf) == kk(y.kf) and kk(x.kr) == kk(y.kr)


def split_after_edit(how, form, us):
    """A Reaction object is mutable: after split() / K were already evaluated once, its constants are edited (kf setter: how 0, kr
    setter: 1, set_k: 2, units system replaced: 3, per-environment dictionary edited in place: 4) with scalar / dictionary values;
    splitting AGAIN must give the two halves of a FRESH reaction with the edited content, and K the ratio of the current constants."""
    kf0, kr0 = ({"e0": 2.0, "default": 5.0}, {"e0": 4.0, "default": 0.5}) if form else (2.0, 4.0)
    r = Reaction("A + 2 B -> C", kf=kf0, kr=kr0, units_system=SYS[us])
    r.split()
    r.K
    new = {"e0": 3.0, "default": 7.0} if form else 3.0
    if how == 0:
        r.kf = new
    elif how == 1:
        r.kr = new
    elif how == 2:
        r.set_k(new, new if not form else {"e0": 9.0, "default": 1.5})
    elif how == 3:
        r.units_system = SYS["G" if us != "G" else "B"]
    else:
        if not form:
            return True
        r.kr["e0"] = UnitValue(11.0, r.kr["e0"].units) if hasattr(r.kr["e0"], "units") else 11.0
    f, v = r.split()
    def plain(k):
        return {e: x.copy() for e, x in k.items()} if isinstance(k, dict) else k.copy()
    fresh = Reaction("A + 2 B -> C", kf=plain(r.kf), kr=plain(r.kr), units_system=r.units_system.copy())
    f2, v2 = fresh.split()
    if not (_same_reaction(f, f2) and _same_reaction(v, v2)):
        return False
    # the halves carry the CURRENT constants
    def kk(k):
        return sorted((e, si(x)) for e, x in k.items()) if isinstance(k, dict) else si(k)
    if kk(f.kf) != kk(r.kf) or kk(v.kf) != kk(r.kr):
        return False
    K, K2 = r.K, fresh.K
    if isinstance(K, dict):
        return sorted(K) == sorted(K2) and all((K[e] is None and K2[e] is None) or abs(si(K[e]) - si(K2[e])) <= 1e-12 * abs(si(K2[e])) for e in K)
    return (K is None and K2 is None) or abs(si(K) - si(K2)) <= 1e-12 * abs(si(K2))


def K_dict_units(f1, f2, us):
    """per-environment constants written with their OWN units (strings / quantities in other systems than the reaction's): every
    K[e] is the physical ratio kf[e] / kr[e] - the same as the scalar form gives for the same two constants, and as the ratio of the
    constants of the two split halves"""
    kfs = ["5 M-1.s-1", "0.25 µm3/molecule/s", UnitValue(3.0, "mM-1.min-1"), 2.0]
    krs = ["6 min-1", "1 ms-1", UnitValue(0.5, "h-1"), 4.0]
    kf = {"e0": kfs[f1], "e1": kfs[(f1 + 1) % 4], "default": kfs[(f1 + 2) % 4]}
    kr = {"e0": krs[f2], "e1": krs[(f2 + 2) % 4], "default": krs[(f2 + 1) % 4]}
    r = Reaction("A + B -> C", kf=kf, kr=kr, units_system=SYS[us])
    K = r.K
    f, v = r.split()
    for e in ("e0", "e1", "default"):
        scalar = Reaction("A + B -> C", kf=kf[e], kr=kr[e], units_system=SYS[us])
        want = si(scalar.kf) / si(scalar.kr)
        if K.get(e) is None or abs(si(K[e]) - want) > 1e-9 * abs(want):
            return False
        if abs(si(scalar.K) - want) > 1e-9 * abs(want):
            return False
        halves = si(f.kf[e]) / si(v.kf[e])
        if abs(halves - want) > 1e-9 * abs(want):
            return False
        d = K[e].units.dim
        if (d["space"], d["time"], d["quantity"]) != (3, 0, -1):
            return False
    return True


def digit_labels_ok(k, c1, c2, spaced):
    """labels permitted by the label rules may START with a digit ("3PG", "13BPG", "2", "12"): in the text form the coefficient is
    the leading integer SEPARATED from the label by a blank; a term without such a blank is a label (coefficient 1)"""
    labs = [("3PG", "13BPG"), ("2", "12"), ("2x", "A"), ("1A", "1")][k]
    sep = " " if not spaced else "  "
    def term(c, l):
        return l if c == 1 else "%d%s%s" % (c, sep, l)
    eq = "%s + %s -> %s" % (term(c1, labs[0]), term(c2, labs[1]), labs[0])
    r = Reaction(eq, kf=1.0)
    labels = [labs[0], labs[1], "other"]
    want_s = [c1, c2, 0]
    want_p = [1, 0, 0]
    if r.ssto(labels) != want_s or r.psto(labels) != want_p or r.order() != c1 + c2:
        return False
    back = Reaction(r.to_string(), kf=1.0)
    if back.ssto(labels) != want_s or back.psto(labels) != want_p:
        return False
    d = Reaction([{labs[0]: c1, labs[1]: c2}, {labs[0]: 1}], kf=1.0)
    return Reaction(d.to_string(), kf=1.0).ssto(labels) == want_s
