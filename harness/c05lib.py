"""Static helpers of the C05/C06 harnesses (the generated wrappers only bind parameters)."""
from strengths.units import UnitValue, UnitArray, Units, UnitsSystem, UnitsDimensions, _units_conversion_dict

SYS = {
    "A": UnitsSystem("µm", "s", "molecule"),
    "B": UnitsSystem("mm", "min", "mmol"),
    "C": UnitsSystem("km", "h", "kmol"),
    "D": UnitsSystem("fm", "fs", "fmol"),
    "E": UnitsSystem("dmm", "cs", "dmol"),
    "F": UnitsSystem("cmm", "ds", "cmol"),
    "G": UnitsSystem("m", "ms", "mol"),
    "H": UnitsSystem("dm", "µs", "µmol"),
    "I": UnitsSystem("cm", "ns", "nmol"),
    "J": UnitsSystem("nm", "ps", "pmol"),
    "K": UnitsSystem("pm", "s", "molecule"),
}


def si_factor(us, dim):
    f = 1.0
    for k in ("space", "time", "quantity"):
        f *= _units_conversion_dict[k][us[k]] ** dim[k]
    return f


def si(v):
    return v.value * si_factor(v.units.sys, v.units.dim)


def close(x, y, scale):
    return abs(x - y) <= 1e-9 * scale


def uv(a, us, d):
    return UnitValue(a, Units(SYS[us], UnitsDimensions(*d)))


def dims(v):
    return (v.units.dim["space"], v.units.dim["time"], v.units.dim["quantity"])


def raises(f):
    try:
        f()
    except Exception:
        return True
    return False


def binop(op, pairing, a, b, usa, usb, da, db):
    """SI homomorphism of one operator application. pairing: vv, vn (value op number), nv (number op value)."""
    ua = uv(a, usa, da)
    ub = uv(b, usb, db)
    sa, sb = si(ua), si(ub)
    if pairing == "vn":
        x, y = ua, b
        # a plain number takes the other operand's units in + - % and comparisons, is dimensionless in * /
        sb_same = b * si_factor(ua.units.sys, ua.units.dim)
        sb_free = b
    elif pairing == "nv":
        x, y = a, ub
        sa_same = a * si_factor(ub.units.sys, ub.units.dim)
        sa_free = a
    else:
        x, y = ua, ub
    if op == "add":
        r = x + y
        e = (sa + sb) if pairing == "vv" else ((sa + sb_same) if pairing == "vn" else (sa_same + sb))
        d = da if pairing != "nv" else db
        return close(si(r), e, abs(e) + abs(sa if pairing != "nv" else sa_same) + 1e-300) and dims(r) == tuple(d)
    if op == "sub":
        r = x - y
        e = (sa - sb) if pairing == "vv" else ((sa - sb_same) if pairing == "vn" else (sa_same - sb))
        d = da if pairing != "nv" else db
        m = (abs(sa) + abs(sb)) if pairing == "vv" else ((abs(sa) + abs(sb_same)) if pairing == "vn" else (abs(sa_same) + abs(sb)))
        return close(si(r), e, m + 1e-300) and dims(r) == tuple(d)
    if op == "mul":
        r = x * y
        e = (sa * sb) if pairing == "vv" else ((sa * sb_free) if pairing == "vn" else (sa_free * sb))
        d = tuple(p + q for p, q in zip(da, db)) if pairing == "vv" else (tuple(da) if pairing == "vn" else tuple(db))
        return close(si(r), e, abs(e) + 1e-300) and dims(r) == d
    if op == "div":
        r = x / y
        e = (sa / sb) if pairing == "vv" else ((sa / sb_free) if pairing == "vn" else (sa_free / sb))
        d = tuple(p - q for p, q in zip(da, db)) if pairing == "vv" else (tuple(da) if pairing == "vn" else tuple(-q for q in db))
        return close(si(r), e, abs(e) + 1e-300) and dims(r) == d
    if op in ("lt", "le", "gt", "ge", "eq"):
        import operator as O
        f = {"lt": O.lt, "le": O.le, "gt": O.gt, "ge": O.ge, "eq": O.eq}[op]
        r = f(x, y)
        e1, e2 = (sa, sb) if pairing == "vv" else ((sa, sb_same) if pairing == "vn" else (sa_same, sb))
        # decided away from ties (conversion constants are decimal floats): the result must agree with the SI comparison
        if abs(e1 - e2) <= 1e-9 * (abs(e1) + abs(e2)):
            return True
        return bool(r) == f(e1, e2)
    raise ValueError(op)


def unop(op, a, us, d):
    u = uv(a, us, d)
    if op == "neg":
        r = -u
        return close(si(r), -si(u), abs(si(u)) + 1e-300) and dims(r) == tuple(d)
    if op == "abs":
        r = abs(u)
        return close(si(r), abs(si(u)), abs(si(u)) + 1e-300) and dims(r) == tuple(d) and r.value >= 0
    if op == "pos":
        r = +u
        return si(r) == si(u) and dims(r) == tuple(d)
    raise ValueError(op)


def powint(a, n, us, d):
    u = uv(a, us, d)
    r = u ** n
    e = si(u) ** n
    return close(si(r), e, abs(e) + 1e-300) and dims(r) == tuple(x * n for x in d)


def mismatch_raises(op, a, b, usa, usb, da, db):
    """dimension vectors differ => + - % and ordering comparisons raise instead of returning a number."""
    ua, ub = uv(a, usa, da), uv(b, usb, db)
    import operator as O
    f = {"add": O.add, "sub": O.sub, "mod": O.mod, "lt": O.lt, "le": O.le, "gt": O.gt, "ge": O.ge}[op]
    return raises(lambda: f(ua, ub))


def pow_fraction(a, num, den, us, d):
    """u ** (num/den) raises iff some resulting exponent is not an integer; otherwise dimension = d*num/den."""
    u = uv(a, us, d)
    e = num / den
    ok = all((x * num) % den == 0 for x in d)
    if not ok:
        return raises(lambda: u ** e)
    r = u ** e
    return dims(r) == tuple((x * num) // den for x in d)


# ------------------------------------------------------------------------------- modulo and arrays
def mod_law(pairing, a, b, usa, usb, d):
    """% : SI value of the result = (SI of a) mod (SI of b) with Python's sign convention (sign of the divisor)."""
    ua, ub = uv(a, usa, d), uv(b, usb, d)
    if pairing == "vv":
        r, x, m = ua % ub, si(ua), si(ub)
    elif pairing == "vn":
        r, x, m = ua % b, si(ua), b * si_factor(ua.units.sys, ua.units.dim)
    else:
        r, x, m = a % ub, a * si_factor(ub.units.sys, ub.units.dim), si(ub)
    got = si(r)
    # r = x - m*floor(x/m): same sign as m (or zero), |r| < |m|, and x - r is a multiple of m
    if not (abs(got) <= abs(m) * (1 + 1e-9)):
        return False
    if got != 0 and (got > 0) != (m > 0) and abs(got) > 1e-9 * abs(m):
        return False
    q = (x - got) / m
    return abs(q - round(q)) <= 1e-6 and dims(r) == tuple(d)


LAT = [-1.75, -0.5, 0.0, 0.75, 2.5]     # value lattice for numpy-resident payloads / modulo


def _arr(vals, us, d):
    return UnitArray(list(vals), Units(SYS[us], UnitsDimensions(*d)))


def array_op(op, pairing, ia, ib, ic, usa, usb, d):
    """UnitArray operators agree element-wise with the scalar UnitValue operators (whose SI law is proved symbolically).
    pairing: av (array op value), va, aa, an (array op number), na. Values from the lattice LAT (indices symbolic)."""
    import operator as O
    f = {"add": O.add, "sub": O.sub, "mul": O.mul, "div": O.truediv, "mod": O.mod}[op]
    xs = [LAT[ia], LAT[(ia + ib) % len(LAT)]]
    y = LAT[ic]
    if op in ("div", "mod") and (y == 0 or (pairing in ("va", "na") and 0 in xs)):
        return True
    db = d if op in ("add", "sub", "mod") else (1, 0, -1)
    if pairing == "av":
        r = f(_arr(xs, usa, d), uv(y, usb, db))
        ref = [f(uv(x, usa, d), uv(y, usb, db)) for x in xs]
    elif pairing == "va":
        r = f(uv(y, usb, db), _arr(xs, usa, d))
        ref = [f(uv(y, usb, db), uv(x, usa, d)) for x in xs]
    elif pairing == "aa":
        ys = [y, LAT[(ic + 3) % len(LAT)]]
        if op in ("div", "mod") and 0 in ys:
            return True
        r = f(_arr(xs, usa, d), _arr(ys, usb, db))
        ref = [f(uv(x, usa, d), uv(yy, usb, db)) for x, yy in zip(xs, ys)]
    elif pairing == "an":
        r = f(_arr(xs, usa, d), y)
        ref = [f(uv(x, usa, d), y) for x in xs]
    else:
        r = f(y, _arr(xs, usa, d))
        ref = [f(y, uv(x, usa, d)) for x in xs]
    if type(r) != UnitArray or len(r) != len(ref):
        return False
    for k, e in enumerate(ref):
        g = r.get_at(k)
        if dims(g) != dims(e):
            return False
        if abs(si(g) - si(e)) > 1e-9 * (abs(si(e)) + abs(si(g))) + 1e-300:
            return False
    return True


def mod_lattice(pairing, ia, ib, usa, usb, d):
    a, b = LAT[ia], LAT[ib]
    if b == 0:
        return True
    return mod_law(pairing, a, b, usa, usb, d)


def array_unary(ia, ib, us, d):
    xs = [LAT[ia], LAT[ib]]
    a = _arr(xs, us, d)
    n, p, ab = -a, +a, abs(a)
    return all(n.value[k] == -xs[k] and p.value[k] == xs[k] and ab.value[k] == abs(xs[k]) for k in range(2)) and n.units == a.units and ab.units == a.units


def array_length_mismatch(op, n1, n2):
    import operator as O
    f = {"add": O.add, "sub": O.sub, "mul": O.mul, "div": O.truediv, "mod": O.mod}[op]
    a = _arr([1.0 + k for k in range(n1)], "A", (1, 0, 0))
    b = _arr([2.0 + k for k in range(n2)], "B", (1, 0, 0))
    if n1 == n2:
        return not raises(lambda: f(a, b))
    return raises(lambda: f(a, b))


def array_dim_mismatch(op, s, t, q):
    import operator as O
    f = {"add": O.add, "sub": O.sub, "mod": O.mod}[op]
    a = _arr([1.0, 2.0], "A", (1, 0, 0))
    b = _arr([1.0, 2.0], "B", (s, t, q))
    v = uv(1.5, "B", (s, t, q))
    return raises(lambda: f(a, b)) and raises(lambda: f(a, v)) and raises(lambda: f(v, a))


_EQ_DIMS = [(1, 0, 0), (0, 1, 0), (0, 0, 1), (-3, 0, 1), (2, -1, 0), (0, 0, 0)]
_EQ_LATTICE = [0.0, 1e-30, -1e-30, 1e-12, 2e-12, 1e-9, 2e-9, -1e-9, 3e-9, 1e-6, 1.0, 1.0 + 1e-6, -1.0, 1e9, 1e9 + 1.0, 1e30]


def eq_lattice(ia, ib, k):
    """== and != between quantities agree with the comparison of their SI values for magnitudes from 1e-30 to 1e30 (no absolute
    tolerance: 1 nm is not 2 nm), whatever the storage systems and the operand order; ties within 1e-9 relative are not judged"""
    pairs = [("A", "A"), ("G", "G"), ("A", "G"), ("G", "J"), ("B", "C"), ("D", "K")]
    usa, usb = pairs[k % len(pairs)]
    d = _EQ_DIMS[(k // len(pairs)) % len(_EQ_DIMS)]
    a, b = _EQ_LATTICE[ia], _EQ_LATTICE[ib]
    ua, ub = uv(a, usa, d), uv(b, usb, d)
    sa, sb = si(ua), si(ub)
    if usa == usb:
        want = a == b           # same units: exact
    elif abs(sa - sb) <= 1e-9 * (abs(sa) + abs(sb)):
        return True             # a tie up to the rounding of the conversion constants is not judged
    else:
        want = False
    return bool(ua == ub) == want and bool(ub == ua) == want and bool(ua != ub) == (not want) and bool(ub != ua) == (not want)


def order_lattice(ia, ib, k):
    """< <= > >= between a quantity and a quantity of the same units, or a plain number (taking the quantity's units), are EXACTLY the
    comparisons of the magnitudes - including at equality, for both operand orders"""
    import operator as O
    us = "AGBJ"[k % 4]
    d = _EQ_DIMS[(k // 4) % len(_EQ_DIMS)]
    a, b = _EQ_LATTICE[ia], _EQ_LATTICE[ib]
    qa, qb = uv(a, us, d), uv(b, us, d)
    for f in (O.lt, O.le, O.gt, O.ge):
        want = f(a, b)
        if bool(f(qa, qb)) != want or bool(f(qa, b)) != want or bool(f(a, qb)) != want:
            return False
    return True


def op_sequence(k, r):
    """a SEQUENCE of operations on the same two operands stored in different unit systems, in one process: every result equals
    arithmetic on the SI values whatever was computed before (x - y, then y / x, then x > y ...)"""
    import operator as O
    pairs = [("B", "A"), ("A", "G"), ("G", "J"), ("C", "B"), ("K", "H"), ("E", "D")]
    usx, usy = pairs[k % len(pairs)]
    d = _EQ_DIMS[(k // len(pairs)) % (len(_EQ_DIMS) - 1)]          # not the dimensionless one
    a, b = 3.0, 90.0
    x, y = uv(a, usx, d), uv(b, usy, d)
    sx, sy = si(x), si(y)
    d2 = tuple(2 * e for e in d)
    steps = [("sub", lambda: x - y, sx - sy, d), ("div_yx", lambda: y / x, sy / sx, (0, 0, 0)), ("gt", lambda: x > y, sx > sy, None), ("add", lambda: x + y, sx + sy, d),
             ("div_xy", lambda: x / y, sx / sy, (0, 0, 0)), ("lt", lambda: y < x, sy < sx, None), ("mul", lambda: x * y, sx * sy, d2), ("mod", lambda: x % y, None, d)]
    steps = steps[r % len(steps):] + steps[:r % len(steps)]
    for name, f, want, dim in steps + steps:
        got = f()
        if dim is None:
            if bool(got) != want:
                return False
            continue
        if dims(got) != tuple(dim):
            return False
        if want is not None and not close(si(got), want, abs(want) + 1e-300):
            return False
    return True
