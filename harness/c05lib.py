"""Static helpers of the C05/C06 harnesses (the generated wrappers only bind parameters)."""
from strengths.units import UnitValue, UnitArray, Units, UnitsSystem, UnitsDimensions, _units_conversion_dict

SYS = {
    "A": UnitsSystem("µm", "s", "molecule"),
    "B": UnitsSystem("mm", "min", "mmol"),
    "C": UnitsSystem("km", "h", "kmol"),
    "D": UnitsSystem("fm", "fs", "fmol"),
    "E": UnitsSystem("dmm", "cs", "dmol"),
    "F": UnitsSystem("cmm", "ds", "cmol"),
    "G": UnitsSystem("m", "ms", "mol"),
    "H": UnitsSystem("dm", "µs", "µmol"),
    "I": UnitsSystem("cm", "ns", "nmol"),
    "J": UnitsSystem("nm", "ps", "pmol"),
    "K": UnitsSystem("pm", "s", "molecule"),
}


def si_factor(us, dim):
    f = 1.0
    for k in ("space", "time", "quantity"):
        f *= _units_conversion_dict[k][us[k]] ** dim[k]
    return f


def si(v):
    return v.value * si_factor(v.units.sys, v.units.dim)


def close(x, y, scale):
    return abs(x - y) <= 1e-9 * scale


def uv(a, us, d):
    return UnitValue(a, Units(SYS[us], UnitsDimensions(*d)))


def dims(v):
    return (v.units.dim["space"], v.units.dim["time"], v.units.dim["quantity"])


def raises(f):
    try:
        f()
    except Exception:
        return True
    return False


def binop(op, pairing, a, b, usa, usb, da, db):
    """SI homomorphism of one operator application. pairing: vv, vn (value op number), nv (number op value)."""
    ua = uv(a, usa, da)
    ub = uv(b, usb, db)
    sa, sb = si(ua), si(ub)
    if pairing == "vn":
        x, y = ua, b
        # a plain number takes the other operand's units in + - % and comparisons, is dimensionless in * /
        sb_same = b * si_factor(ua.units.sys, ua.units.dim)
        sb_free = b
    elif pairing == "nv":
        x, y = a, ub
        sa_same = a * si_factor(ub.units.sys, ub.units.dim)
        sa_free = a
    else:
        x, y = ua, ub
    if op == "add":
        r = x + y
        e = (sa + sb) if pairing == "vv" else ((sa + sb_same) if pairing == "vn" else (sa_same + sb))
        d = da if pairing != "nv" else db
        return close(si(r), e, abs(e) + abs(sa if pairing != "nv" else sa_same) + 1e-300) and dims(r) == tuple(d)
    if op == "sub":
        r = x - y
        e = (sa - sb) if pairing == "vv" else ((sa - sb_same) if pairing == "vn" else (sa_same - sb))
        d = da if pairing != "nv" else db
        m = (abs(sa) + abs(sb)) if pairing == "vv" else ((abs(sa) + abs(sb_same)) if pairing == "vn" else (abs(sa_same) + abs(sb)))
        return close(si(r), e, m + 1e-300) and dims(r) == tuple(d)
    if op == "mul":
        r = x * y
        e = (sa * sb) if pairing == "vv" else ((sa * sb_free) if pairing == "vn" else (sa_free * sb))
        d = tuple(p + q for p, q in zip(da, db)) if pairing == "vv" else (tuple(da) if pairing == "vn" else tuple(db))
        return close(si(r), e, abs(e) + 1e-300) and dims(r) == d
    if op == "div":
        r = x / y
        e = (sa / sb) if pairing == "vv" else ((sa / sb_free) if pairing == "vn" else (sa_free / sb))
        d = tuple(p - q for p, q in zip(da, db)) if pairing == "vv" else (tuple(da) if pairing == "vn" else tuple(-q for q in db))
        return close(si(r), e, abs(e) + 1e-300) and dims(r) == d
    if op in ("lt", "le", "gt", "ge", "eq"):
        import operator as O
        f = {"lt": O.lt, "le": O.le, "gt": O.gt, "ge": O.ge, "eq": O.eq}[op]
        r = f(x, y)
        e1, e2 = (sa, sb) if pairing == "vv" else ((sa, sb_same) if pairing == "vn" else (sa_same, sb))
        # decided away from ties (conversion constants are decimal floats): the result must agree with the SI comparison
        if abs(e1 - e2) <= 1e-9 * (abs(e1) + abs(e2)):
            return True
        return bool(r) == f(e1, e2)
    raise ValueError(op)


def unop(op, a, us, d):
    u = uv(a, us, d)
    if op == "neg":
        r = -u
        return close(si(r), -si(u), abs(si(u)) + 1e-300) and dims(r) == tuple(d)
    if op == "abs":
        r = abs(u)
        return close(si(r), abs(si(u)), abs(si(u)) + 1e-300) and dims(r) == tuple(d) and r.value >= 0
    if op == "pos":
        r = +u
        return si(r) == si(u) and dims(r) == tuple(d)
    raise ValueError(op)


def powint(a, n, us, d):
    u = uv(a, us, d)
    r = u ** n
    e = si(u) ** n
    return close(si(r), e, abs(e) + 1e-300) and dims(r) == tuple(x * n for x in d)


def mismatch_raises(op, a, b, usa, usb, da, db):
    """dimension vectors differ => + - % and ordering comparisons raise instead of returning a number."""
    ua, ub = uv(a, usa, da), uv(b, usb, db)
    import operator as O
    f = {"add": O.add, "sub": O.sub, "mod": O.mod, "lt": O.lt, "le": O.le, "gt": O.gt, "ge": O.ge}[op]
    return raises(lambda: f(ua, ub))


def pow_fraction(a, num, den, us, d):
    """u ** (num/den) raises iff some resulting exponent is not an integer; otherwise dimension = d*num/den."""
    u = uv(a, us, d)
    e = num / den
    ok = all((x * num) % den == 0 for x in d)
    if not ok:
        return raises(lambda: u ** e)
    r = u ** e
    return dims(r) == tuple((x * num) // den for x in d)
