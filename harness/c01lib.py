"""Static helpers of the Python legs of C01 / C03 / C04: kinetics functions, make_dxdtf, apply_reaction."""
import numpy as np
from strengths import *
from strengths import kinetics
from strengths.units import UnitValue, UnitArray, Units, UnitsSystem, UnitsDimensions
from strengths import value_processing as valproc
from harness.c05lib import SYS, si, si_factor, raises
from vt import catalogue
from vt.oracle import grid_neighbor

_C = {}
STRUCT = {
    "ab_grid2": ("AB_rev", ("grid", 2, 1, 1, 0)), "ab_grid2p": ("AB_rev", ("grid", 2, 1, 1, 1)), "abc_pair": ("ABC_bi", ("graph", "pair")), "dimer1": ("dimer_source", ("grid", 1, 1, 1, 0)),
    "none1": ("none", ("grid", 1, 1, 1, 0)), "o3_grid3": ("order3_repeat", ("grid", 3, 1, 1, 1)), "ab_tri": ("AB_rev", ("graph", "triangle")), "abc1": ("ABC_bi", ("grid", 1, 1, 1, 0)),
    "chb_grid2": ("chstt_B", ("grid", 2, 1, 1, 0)), "ab_grid12": ("AB_rev", ("grid", 1, 2, 1, 2)),
    "ab_grid321": ("AB_rev", ("grid", 3, 2, 1, 1)), "ab_grid232": ("AB_rev", ("grid", 2, 3, 2, 0)), "abc_tri": ("ABC_bi", ("graph", "triangle")),
}


def system(name, chem=None):
    key = (name, tuple(chem) if chem else None)
    if key not in _C:
        net, sd = STRUCT[name]
        _C[key] = catalogue.build(net, sd, None, list(chem) if chem else None)
    return _C[key]


class DuckState:
    """stands in for the UnitArray state (its numpy payload would realise the symbolic amounts)"""

    def __init__(self, vals, units):
        self.vals, self.units = list(vals), units

    def get_at(self, i):
        return UnitValue(self.vals[i], self.units)

    def __len__(self):
        return len(self.vals)


def _env_val(v, env):
    r = valproc.get_value_in_env(v, env, 0)
    return r.value if hasattr(r, "value") else r


def reference(sysm, xs, s, i, flags=None):
    """the documented law for (species s, cell i), in molecule/s, written from the network / space objects (default units)"""
    net, space = sysm.network, sysm.space
    labels = net.species_labels()
    nc = space.size()
    envs = net.environments
    cell_env = [int(e) for e in space.get_cell_env_array()]
    vols = [float(v) for v in space.get_cell_vol_array().value]
    if flags is not None and flags[s * nc + i]:
        return 0.0
    e = envs[cell_env[i]]
    V = vols[i]
    d = 0.0
    for r in net.reactions:
        sub, prod = r.substrates, r.products
        rf = _env_val(r.kf, e) * V
        rr = _env_val(r.kr, e) * V
        for k, lab in enumerate(labels):
            for _ in range(int(sub.get(lab, 0))):
                rf = rf * (xs[k * nc + i] / V)
            for _ in range(int(prod.get(lab, 0))):
                rr = rr * (xs[k * nc + i] / V)
        nu = int(prod.get(labels[s], 0)) - int(sub.get(labels[s], 0))
        d = d + nu * (rf - rr)
    sp = net.species[s]
    Di = _env_val(sp.D, e)
    if isinstance(space, RDGridSpace):
        h = round(V ** (1.0 / 3.0), 9)
        for n in range(6):
            j = grid_neighbor(space, i, n)
            if j is None:
                continue
            Dj = _env_val(sp.D, envs[cell_env[j]])
            if Di != 0 and Dj != 0:
                kk = 2.0 / (h * h * (1.0 / Di + 1.0 / Dj))
                d = d + kk * xs[s * nc + j] - kk * xs[s * nc + i]
    else:
        for ed in space.edges:
            for (a, b) in ((ed.i, ed.j), (ed.j, ed.i)):
                if a != i or b == i:
                    continue
                Dj = _env_val(sp.D, envs[cell_env[b]])
                if Di != 0 and Dj != 0:
                    hi, hj = round(vols[i] ** (1.0 / 3.0), 9), round(vols[b] ** (1.0 / 3.0), 9)
                    Dij = (hi + hj) / (hi / Di + hj / Dj)
                    d = d + Dij * ed.surface.value / (ed.distance.value * vols[b]) * xs[s * nc + b] - Dij * ed.surface.value / (ed.distance.value * vols[i]) * xs[s * nc + i]
    return d


def _close(a, b, scale):
    return abs(a - b) <= 1e-9 * scale + 1e-12


def _scale(xs):
    m = 1.0
    for x in xs:
        m = m + abs(x) + abs(x) ** 3
    return m * 100.0


def dspecies_ok(name, s, i, xs, chem=None, apply_chemostats=False):
    sysm = system(name, chem)
    duck = DuckState(xs, sysm.state.units)
    r = kinetics.compute_dspeciesdt(sysm, s, i, state=duck, apply_chemostats=apply_chemostats)
    d = r.units.dim
    if (d["space"], d["time"], d["quantity"]) != (0, -1, 1):
        return False
    want = reference(sysm, xs, s, i, [int(c) for c in sysm.chemostats] if apply_chemostats else None)
    if apply_chemostats and sysm.chemostats[s * sysm.space.size() + i]:
        return si(r) == 0
    return _close(si(r), want, _scale(xs))


def rates_ok(name, q, i, xs):
    """forward / backward rate pair of reaction q in cell i"""
    sysm = system(name)
    duck = DuckState(xs, sysm.state.units)
    rf, rr = kinetics.compute_reaction_rates(sysm, q, i, state=duck)
    net = sysm.network
    labels = net.species_labels()
    nc = sysm.space.size()
    e = net.environments[int(sysm.space.get_cell_env_array()[i])]
    V = float(sysm.space.get_cell_vol_array().value[i])
    r = net.reactions[q]
    wf, wr = _env_val(r.kf, e) * V, _env_val(r.kr, e) * V
    for k, lab in enumerate(labels):
        for _ in range(int(r.substrates.get(lab, 0))):
            wf = wf * (xs[k * nc + i] / V)
        for _ in range(int(r.products.get(lab, 0))):
            wr = wr * (xs[k * nc + i] / V)
    ok = _close(si(rf), wf, _scale(xs)) and _close(si(rr), wr, _scale(xs))
    for v in (rf, rr):
        d = v.units.dim
        ok = ok and (d["space"], d["time"], d["quantity"]) == (0, -1, 1)
    return ok


def dstate_shape_ok(name):
    """compute_dstatedt returns one amount/time quantity per (species, cell), species-major, also for degenerate systems"""
    sysm = system(name)
    r = kinetics.compute_dstatedt(sysm)
    n = sysm.space.size() * len(sysm.network.species)
    d = r.units.dim
    if len(r) != n or (d["space"], d["time"], d["quantity"]) != (0, -1, 1):
        return False
    xs = [float(v) for v in sysm.state.value]
    nc = sysm.space.size()
    for s in range(len(sysm.network.species)):
        for i in range(nc):
            want = reference(sysm, xs, s, i, [int(c) for c in sysm.chemostats])
            if not _close(si(r.get_at(s * nc + i)), want, _scale(xs)):
                return False
    return True


def dxdtf_ok(name, xs, chem=None):
    sysm = system(name, chem)
    f = sysm.make_dxdtf()
    got = f(0.0, list(xs))
    flags = [int(c) for c in sysm.chemostats]
    for s in range(len(xs)):
        want = reference(sysm, xs, s, 0, flags)
        if flags[s]:
            if got[s] != 0:
                return False
        elif not _close(got[s], want, _scale(xs)):
            return False
    return True


def apply_reaction_ok(name, chem, q, cell, n):
    """apply_reaction changes exactly the unflagged entries of that cell by n * (products - substrates)"""
    sysm = system(name, chem)
    nc = sysm.space.size()
    labels = sysm.network.species_labels()
    before = [float(v) for v in sysm.state.value]
    r = sysm.network.reactions[q]
    out = sysm.apply_reaction(q, position=cell, n=n)
    after = [float(v) for v in out.value]
    for s, lab in enumerate(labels):
        for i in range(nc):
            k = s * nc + i
            dl = (int(r.products.get(lab, 0)) - int(r.substrates.get(lab, 0))) * n if (i == cell and not sysm.chemostats[k]) else 0
            if abs(after[k] - before[k] - dl) > 1e-9:
                return False
    return [float(v) for v in sysm.state.value] == before


def units_invariance_ok(name, s, i, us, xs):
    """rate of change requested in another units system = default-units result times the amount/time factor"""
    sysm = system(name)
    duck = DuckState(xs, sysm.state.units)
    a = kinetics.compute_dspeciesdt(sysm, s, i, state=duck, apply_chemostats=False)
    b = kinetics.compute_dspeciesdt(sysm, s, i, state=duck, apply_chemostats=False, units_system=SYS[us])
    return b.units.sys == SYS[us] and _close(si(a), si(b), abs(si(a)) + abs(si(b))) and b.units.dim == a.units.dim


def dxdtf_units_ok(name, us, xs):
    """make_dxdtf(units_system=U): with x given in U's amount unit, the returned derivative (amount/time of U) is the law, compared in SI"""
    sysm = system(name)
    U = SYS[us]
    f = sysm.make_dxdtf(units_system=U)
    q_def = si_factor(sysm.state.units.sys, UnitsDimensions(0, 0, 1))
    q_u, r_u = si_factor(U, UnitsDimensions(0, 0, 1)), si_factor(U, UnitsDimensions(0, -1, 1))
    x_u = [x * q_def / q_u for x in xs]
    got = f(0.0, x_u)
    r_def = si_factor(UnitsSystem(), UnitsDimensions(0, -1, 1))
    flags = [int(c) for c in sysm.chemostats]
    for s in range(len(xs)):
        want = reference(sysm, xs, s, 0, flags) * r_def
        if flags[s]:
            if got[s] != 0:
                return False
        elif not _close(got[s] * r_u, want, _scale(xs) * r_def):
            return False
    return True


def flag_position_ok(name, k, extra):
    """chemostat map with entry k flagged (plus, when `extra`, every third other entry): the derivative of the WHOLE state with flags
    applied is the derivative without flags, set to zero at exactly the flagged entries (the derivative is a function of the
    state alone: flagged entries keep acting as reactants and partners) - per entry (compute_dspeciesdt, cell given by index and
    by coordinates) and for the state vector (compute_dstatedt); spaces with two or three extended axes, so that a flag looked up
    at a transposed position is another entry's flag"""
    net, sd = STRUCT[name]
    base = system(name)
    ns, nc = len(base.network.species), base.space.size()
    n = ns * nc
    if k >= n:
        return True
    chem = [1 if (j == k or (extra and j % 3 == (k + 1) % 3)) else 0 for j in range(n)]
    sysm = system(name, chem)
    x = [3.0 + 1.75 * ((7 * j + 3) % 11) for j in range(n)]
    st = UnitArray(x, sysm.state.units)
    free = system(name, [0] * n)
    d0 = kinetics.compute_dstatedt(free, state=st)
    d1 = kinetics.compute_dstatedt(sysm, state=st)
    d2 = kinetics.compute_dstatedt(sysm, state=st, apply_chemostats=False) if "apply_chemostats" in kinetics.compute_dstatedt.__code__.co_varnames else d0
    for j in range(n):
        want = 0.0 if chem[j] else float(d0.value[j])
        if abs(float(d1.value[j]) - want) > 1e-9 * (1 + abs(want)) or abs(float(d2.value[j]) - float(d0.value[j])) > 1e-9 * (1 + abs(want)):
            return False
        s_, i_ = divmod(j, nc)
        forms = [i_]
        if hasattr(sysm.space, "get_cell_coordinates"):
            forms.append(sysm.space.get_cell_coordinates(i_))
        for pos in forms:
            r = kinetics.compute_dspeciesdt(sysm, s_, pos, state=st, apply_chemostats=True)
            if abs(float(r.value) - want) > 1e-9 * (1 + abs(want)):
                return False
    return True
