"""Static helpers of the C16 harness: coarse-graining."""
import numpy as np
from strengths import *
from strengths.units import UnitValue, UnitArray, Units, UnitsSystem, UnitsDimensions
from strengths.coarsegrain import coarsegrain_grid, coarsegrain_system, check_index_map_validity, uncoarsegrain_trajectory
from strengths.rdoutput import RDTrajectory
from harness.c05lib import raises

_R = [-1, 0, 1, 2, 3]
ENVMAPS = {(2, 1, 1): [0, 1], (3, 1, 1): [0, 0, 1], (2, 2, 1): [0, 1, 1, 0], (2, 2, 2): [0, 0, 1, 1, 0, 1, 0, 1], (1, 1, 3): [1, 1, 0], (1, 2, 2): [0, 1, 1, 0], (2, 1, 2): [0, 0, 1, 1]}
_S = {}


def system(shape, envs=None, units=0):
    """units: 0 = everything in the default system; 1 = state given as a UnitArray in fmol; 2 = network in (mm, min, mmol), space in (dm, s, mol), system default"""
    key = (shape, tuple(envs) if envs else None, units)
    if key not in _S:
        w, h, d = shape
        n = w * h * d
        env = list(envs) if envs else ENVMAPS[shape]
        nu = UnitsSystem("mm", "min", "mmol") if units == 2 else UnitsSystem()
        su = UnitsSystem("dm", "s", "mol") if units == 2 else UnitsSystem()
        net = RDNetwork(species=[Species("A", D=1.5, density=2.0, units_system=nu), Species("B", D={"e0": 0.5, "e1": 2.0}, density={"e1": 1.0}, units_system=nu)],
                        reactions=[Reaction("A -> B", kf=1.25, kr=0.5, units_system=nu)], environments=["e0", "e1"], units_system=nu)
        # exact zeros too, at chemostated entries (k % 5 == 1, odd k) and elsewhere: an empty chemostated cell is still chemostated
        state = [0.0 if ((k % 5 == 1 and k % 2 == 1) or k % 7 == 3) else 1.0 + 0.5 * k + 0.25 * (k % 3) for k in range(2 * n)]
        chem = [1 if k % 5 == 1 else 0 for k in range(2 * n)]
        if units == 1:
            state = UnitArray(state, "fmol")
        elif units == 2:
            state = None        # default state, generated in the network's units
        _S[key] = RDSystem(net, RDGridSpace(w=w, h=h, d=d, cell_env=env, cell_vol=8.0, units_system=su), state=state, chemostats=chem)
    return _S[key]


def valid(shape, im, envs=None):
    """the DOCUMENTED rules: one entry per cell, integers >= -1, at least one group, every index 0..max present, no group mixing environments"""
    w, h, d = shape
    env = list(envs) if envs else ENVMAPS[shape]
    if len(im) != w * h * d:
        return False
    if any(v < -1 for v in im) or max(im) < 0:
        return False
    if any(g not in im for g in range(max(im) + 1)):
        return False
    for g in range(max(im) + 1):
        if len({env[i] for i in range(len(im)) if im[i] == g}) > 1:
            return False
    return True


def _faces(shape):
    w, h, d = shape
    out = []
    for z in range(d):
        for y in range(h):
            for x in range(w):
                i = z * w * h + y * w + x
                if x < w - 1:
                    out.append((i, i + 1))
                if y < h - 1:
                    out.append((i, i + w))
                if z < d - 1:
                    out.append((i, i + w * h))
    return out


def accept_iff_valid(shape, im, envs=None):
    im = [_R[v + 1] for v in im]
    sysm = system(shape, envs)
    ok = valid(shape, im, envs)
    rejected = raises(lambda: coarsegrain_system(sysm, im))
    return rejected != ok


def amounts_conserved(shape, im, units):
    """per-species totals over the retained cells are preserved IN SI whatever units the state / network / space are given in"""
    from harness.c05lib import si
    im = [_R[v + 1] for v in im]
    if not valid(shape, im, None):
        return True
    sysm = system(shape, None, units)
    n = len(im)
    cg = coarsegrain_system(sysm, im)
    ng = max(im) + 1
    for s in range(2):
        for g in range(ng):
            tot = sum(si(sysm.state.get_at(s * n + i)) for i in range(n) if im[i] == g)
            got = si(cg.state.get_at(s * ng + g))
            if abs(got - tot) > 1e-9 * abs(tot) + 1e-300:
                return False
        vol = sum(si(sysm.space.get_cell_vol(i)) for i in range(n) if im[i] != -1)
        gv = sum(si(cg.space.get_cell_vol(g)) for g in range(ng))
        if abs(vol - gv) > 1e-9 * vol:
            return False
    return True


def conserves(shape, im, envs=None):
    """for valid maps: volumes, amounts, environments, chemostats, edges, surfaces, distances"""
    im = [_R[v + 1] for v in im]
    if not valid(shape, im, envs):
        return True
    sysm = system(shape, envs)
    w, h, d = shape
    n = w * h * d
    env = list(envs) if envs else ENVMAPS[shape]
    cg = coarsegrain_system(sysm, im)
    ng = max(im) + 1
    if cg.space.size() != ng or len(cg.state) != 2 * ng or len(cg.chemostats) != 2 * ng:
        return False
    hedge = 2.0
    for g in range(ng):
        members = [i for i in range(n) if im[i] == g]
        if abs(cg.space.nodes[g].volume.value - 8.0 * len(members)) > 1e-9:
            return False
        if int(cg.space.nodes[g].environment) != env[members[0]]:
            return False
        for s in range(2):
            tot = sum(float(sysm.state.value[s * n + i]) for i in members)
            if abs(float(cg.state.value[s * ng + g]) - tot) > 1e-9:
                return False
            flag = 1 if any(int(sysm.chemostats[s * n + i]) for i in members) else 0
            if int(cg.chemostats[s * ng + g]) != flag:
                return False
    want = {}
    for (a, b) in _faces(shape):
        ga, gb = im[a], im[b]
        if ga == -1 or gb == -1 or ga == gb:
            continue
        key = (min(ga, gb), max(ga, gb))
        want[key] = want.get(key, 0) + 1
    got = {}
    for e in cg.space.edges:
        if e.i == e.j:
            return False
        key = (min(e.i, e.j), max(e.i, e.j))
        if key in got:
            return False
        got[key] = e
    if set(got) != set(want):
        return False

    def centroid(g):
        ms = [i for i in range(n) if im[i] == g]
        return [sum(c) / len(ms) for c in zip(*[((i % w) * hedge, ((i // w) % h) * hedge, (i // (w * h)) * hedge) for i in ms])]
    for key, e in got.items():
        if abs(e.surface.value - want[key] * hedge * hedge) > 1e-9:
            return False
        ca, cb = centroid(key[0]), centroid(key[1])
        dist = sum((p - q) ** 2 for p, q in zip(ca, cb)) ** 0.5
        if abs(e.distance.value - dist) > 1e-9:
            return False
    return True


def uncoarsegrain_ok(shape, im, envs=None):
    im = [_R[v + 1] for v in im]
    if not valid(shape, im, envs):
        return True
    sysm = system(shape, envs)
    w, h, d = shape
    n = w * h * d
    cg = coarsegrain_system(sysm, im)
    ng = max(im) + 1
    nsamp = 2
    data = UnitArray(np.array([10.0 + 3.0 * k + (k % 4) for k in range(nsamp * 2 * ng)]), "molecule")
    tr = RDTrajectory(data, UnitArray(np.arange(nsamp, dtype=float), "s"), cg)
    un = uncoarsegrain_trajectory(tr, sysm, im)
    if len(un.data) != nsamp * 2 * n or un.cgmap != im:
        return False
    for smp in range(nsamp):
        for s in range(2):
            for g in range(ng):
                ms = [i for i in range(n) if im[i] == g]
                vals = [float(un.data.value[smp * 2 * n + s * n + i]) for i in ms]
                gv = float(data.value[smp * 2 * ng + s * ng + g])
                if any(abs(v - gv / len(ms)) > 1e-9 for v in vals) or abs(sum(vals) - gv) > 1e-9:
                    return False
            for i in range(n):
                if im[i] == -1 and float(un.data.value[smp * 2 * n + s * n + i]) != 0.0:
                    return False
    return True


def simulate_with_map(shape, mode, tunit=0):
    """simulate(..., cgmap=...) through the real build: the identity map reproduces the plain simulation sample by sample; a
    grouping map gives a trajectory of the ORIGINAL shape whose per-species totals equal those of the plain run at every sample
    (pure diffusion, Euler) and whose system / script are the original ones"""
    from strengths import simulate
    from vt.glue import real_engine
    w, h, d = shape
    n = w * h * d
    envs = [0] * n
    net = RDNetwork(species=[Species("A", D=1.5), Species("B", D={"e0": 0.5})], reactions=[], environments=["e0", "e1"])
    st = [float((3 * k + 1) % 7) * 10.0 for k in range(2 * n)]
    # chemostat flags too (species A held in the last cell, species B in cell 1 when there is one): 2 species on n != 2 cells, so a
    # transposed flag map is another map
    chem = [0] * (2 * n)
    if mode == 0 and n > 2:
        chem[n - 1] = 1
        chem[n + 1] = 1
    sysm = RDSystem(net, RDGridSpace(w=w, h=h, d=d, cell_env=envs, cell_vol=8.0), state=st, chemostats=chem)
    ts = [0.0, 0.5, 1.0]
    if tunit == 3:
        # two requested times closer to each other than the time step (both are reached in the same iteration), then a later one
        ts = [0.0, 0.55, 0.6, 1.0]
    elif tunit:
        # the sample times carry their own time unit (the script's is the second): same physical times
        unit, fac = [("ms", 1e-3), ("min", 60.0)][tunit - 1]
        ts = UnitArray([t / fac for t in ts], unit)
    plain = simulate(sysm, ts, engine=real_engine("euler"), time_step=0.125)
    cg = list(range(n)) if mode == 0 else [k // 2 for k in range(n)]
    out = simulate(sysm, ts, engine=real_engine("euler"), cgmap=cg, time_step=0.125)
    a, b = [float(v) for v in plain.data.value], [float(v) for v in out.data.value]
    if len(a) != len(b) or list(out.t.value) != list(plain.t.value) or out.system.space.size() != n:
        return False
    if tunit == 3:
        pass
    elif len(a) != 3 * 2 * n or any(abs(float(t) * (1.0 if not tunit else float(UnitValue(1.0, str(out.t.units)).convert("s").value)) - w) > 1e-6 for t, w in zip(out.t.value, [0.0, 0.5, 1.0])):
        return False                        # three samples, at the requested physical times
    if mode == 0:
        return all(abs(x - y) <= 1e-9 * (1 + abs(x)) for x, y in zip(a, b))
    ns = 2
    for smp in range(len(ts)):
        for s in range(ns):
            ta = sum(a[smp * ns * n + s * n:smp * ns * n + (s + 1) * n])
            tb = sum(b[smp * ns * n + s * n:smp * ns * n + (s + 1) * n])
            if abs(ta - tb) > 1e-9 * (1 + abs(ta)):
                return False
    return True


def chem_flags_dense(k, m, pat):
    """dense chemostat maps (several flagged members of the SAME species in one group, for every species incl. the last): the coarse
    flag is exactly 0 or 1 - 1 iff any member is flagged - for three species, so that a block-wise slip shows in a later block;
    the exported right-hand side of the coarse system holds the flagged entries at zero rate"""
    shape = [(2, 2, 1), (4, 1, 1), (2, 2, 2)][k]
    w, h, d = shape
    n = w * h * d
    im = [[0] * n, [i // 2 for i in range(n)], [i % 2 for i in range(n)] if shape == (4, 1, 1) and False else [min(i // 2, 1) for i in range(n)]][m]
    chem = []
    for s in range(3):
        for i in range(n):
            chem.append([1 if (i + s) % 2 == 0 else 0, 1, 1 if i < 2 else 0, 1 if (s == 2) else 0][pat])
    net = RDNetwork(species=[Species("A", D=1.0), Species("B", D=1.0), Species("C", D=1.0)], reactions=[Reaction("A + B -> C", kf=0.5, kr=0.25)])
    st = [5.0 + k_ for k_ in range(3 * n)]
    sysm = RDSystem(net, RDGridSpace(w=w, h=h, d=d, cell_vol=8.0), state=st, chemostats=chem)
    cg = coarsegrain_system(sysm, im)
    ng = max(im) + 1
    if len(cg.chemostats) != 3 * ng:
        return False
    for s in range(3):
        for g in range(ng):
            want = 1 if any(chem[s * n + i] for i in range(n) if im[i] == g) else 0
            got = cg.chemostats[s * ng + g]
            if got != want or int(got) not in (0, 1):
                return False
    if ng == 1:
        # the exported right-hand side exists for single-node systems: held entries have rate exactly 0
        import numpy as _np
        dx = cg.make_dxdtf()(0.0, _np.array([float(v) for v in cg.state.value]))
        if not all(float(dx[j]) == 0.0 for j in range(3 * ng) if int(cg.chemostats[j])):
            return False
    return True


def simulate_stochastic_map(k, opt, mode):
    """stochastic engines through a coarse-graining map (real build): with the identity map (mode 0) or a pairing map (mode 1), an
    IMMOBILE species (D = 0, no reaction) keeps its initial per-cell amounts in every sample of the un-coarse-grained trajectory
    (identity) / its per-group totals (pairing), a mobile one keeps its grand total, amounts stay non-negative integers - the
    diffusion channels of the graph engines carry each species' own coefficient"""
    from strengths import simulate
    from vt.glue import real_engine
    w, h, d = [(6, 1, 1), (3, 2, 1), (2, 2, 2)][k]
    n = w * h * d
    option = ["tauleap", "gillespie"][opt]
    net = RDNetwork(species=[Species("A", D=0), Species("B", D=5.0), Species("C", D=0.5)], reactions=[])
    st = [0.0] * (3 * n)
    st[n // 2] = 60.0
    st[n // 2 - 1] = 60.0
    st[n + n // 2] = 80.0
    st[2 * n] = 40.0
    sysm = RDSystem(net, RDGridSpace(w=w, h=h, d=d, cell_vol=1.0), state=st)
    cg = list(range(n)) if mode == 0 else [i // 2 for i in range(n)]
    for seed in (1, 2, 3):
        out = simulate(sysm, [0.0, 0.05, 0.1], engine=real_engine(option), cgmap=cg, time_step=0.001, rng_seed=seed, init_state_processing="none")
        x = [float(v) for v in out.data.value]
        ns = len(out.t.value)
        for smp in range(ns):
            blk = x[smp * 3 * n:(smp + 1) * 3 * n]
            a, b, c = blk[:n], blk[n:2 * n], blk[2 * n:]
            if mode == 0:
                if a != st[:n] or any(v < 0 or v != int(v) for v in blk):
                    return False
            else:
                for g in range(max(cg) + 1):
                    if abs(sum(a[i] for i in range(n) if cg[i] == g) - sum(st[i] for i in range(n) if cg[i] == g)) > 1e-9:
                        return False
            if abs(sum(b) - 80.0) > 1e-9 or abs(sum(c) - 40.0) > 1e-9:
                return False
    return True
