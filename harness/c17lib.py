"""Static helpers of the C17 harness: trajectory accessors."""
import numpy as np
from strengths import *
from strengths.units import UnitValue, UnitArray, Units, UnitsSystem, UnitsDimensions
from strengths.rdoutput import RDTrajectory
from vt import catalogue

_CACHE = {}


def traj(kind, nsamp):
    key = (kind, nsamp)
    if key not in _CACHE:
        sd = {"g211": ("grid", 2, 1, 1, 0), "g321": ("grid", 3, 2, 1, 1), "g111": ("grid", 1, 1, 1, 0), "g223": ("grid", 2, 2, 3, 4), "g132": ("grid", 1, 3, 2, 2), "tri": ("graph", "triangle"), "pair": ("graph", "pair")}[kind]
        net = "ABC_bi" if kind in ("g321", "tri", "g223", "g132") else "AB_rev"
        system = catalogue.build(net, sd)
        ns, nc = len(system.network.species), system.space.size()
        data = UnitArray(np.arange(nsamp * ns * nc, dtype=float), "mmol")
        t = UnitArray(np.arange(nsamp, dtype=float), "s")
        if kind in ("g321", "g132"):
            # a trajectory that carries a coarse-graining map (as simulate(..., cgmap=) returns it): it is ALREADY expanded over the
            # original cells - every accessor addresses original cells; map values: group numbers, one dropped cell (-1)
            cg = [(2 * k + 1) % 3 for k in range(nc)]
            cg[1] = -1
            _CACHE[key] = (RDTrajectory(data, t, system, cgmap=cg), ns, nc)
        else:
            _CACHE[key] = (RDTrajectory(data, t, system), ns, nc)
    return _CACHE[key]


def index_consistent(kind, nsamp, s, n, i):
    tr, ns, nc = traj(kind, nsamp)
    expect = n * ns * nc + s * nc + i
    lab = tr.system.network.species[s].label
    obj = tr.system.network.species[s]
    units = tr.data.units
    for sp in (s, lab, obj):
        p = tr.get_trajectory_point(sp, n, i)
        if p.value != expect or p.units != units:
            return False
        st = tr.get_state(sp, n)
        if len(st) != nc or st.value[i] != expect or st.units != units:
            return False
        tj = tr.get_trajectory(sp, i)
        if len(tj) != nsamp or tj.value[n] != expect or tj.units != units:
            return False
        for pos in (0, i):            # the position is ignored when merging: any (valid) position gives the sum over ALL cells
            mg = tr.get_trajectory(sp, pos, merge=True)
            if len(mg) != nsamp or mg.value[n] != sum(n * ns * nc + s * nc + j for j in range(nc)):
                return False
    whole = tr.get_state(None, n)
    if len(whole) != ns * nc or list(whole.value) != [float(n * ns * nc + k) for k in range(ns * nc)]:
        return False
    return tr.data.value[expect] == expect


def coords_consistent(kind, nsamp, s, n, x, y, z):
    tr, ns, nc = traj(kind, nsamp)
    sp = tr.system.space
    i = z * sp.w * sp.h + y * sp.w + x
    expect = n * ns * nc + s * nc + i
    class P:
        pass
    o = P()
    o.x, o.y, o.z = x, y, z
    # every coordinate form names the same cell as the linear index: tuple, list, object with x / y / z
    # coordinates inside the cell (fractional) name that cell too, truncated axis by axis, in every coordinate form
    f = P()
    f.x, f.y, f.z = x + 0.5, y + 0.25, z + 0.75
    for pos in ((x, y, z), [x, y, z], o, (x + 0.5, y + 0.25, z + 0.75), [x + 0.5, y + 0.25, z + 0.75], f, np.array([x + 0.5, y + 0.25, z + 0.75])):
        if tr.get_trajectory_point(s, n, pos).value != expect or tr.get_trajectory(s, pos).value[n] != expect:
            return False
    return tr.get_trajectory_point(s, n, i).value == expect


class DuckTimes:
    """stands in for the UnitArray of sample times (its payload would be numpy, which realises symbols)"""

    def __init__(self, vals, units):
        self.vals, self.units = vals, Units(units)

    def get_at(self, i):
        return UnitValue(self.vals[i], self.units)

    def __len__(self):
        return len(self.vals)

    def copy(self):
        return self


def ref_lookup(ts, t, policy):
    """quantifier-free reference definition of the sample-index lookup"""
    if not ts:
        return None
    if policy == "closest":
        best = 0
        for k in range(1, len(ts)):
            if abs(ts[k] - t) < abs(ts[best] - t):      # ties to the earlier
                best = k
        return best
    if policy == "infeq":
        c = [k for k in range(len(ts)) if ts[k] <= t]
        return c[-1] if c else None
    c = [k for k in range(len(ts)) if ts[k] >= t]
    return c[0] if c else None


def lookup_ok(ts, t, unit, factor, policy):
    """ts: strictly increasing sample times in seconds; the query is t (in `unit`, `factor` seconds per unit)."""
    tr, ns, nc = traj("g111", 1)
    tr2 = RDTrajectory.__new__(RDTrajectory)
    tr2.__dict__.update(tr.__dict__)
    tr2._t = DuckTimes(list(ts), "s")
    got = tr2.get_sample_index(UnitValue(t, unit), policy)
    tq = t * factor
    # away from exact ties created by the decimal conversion constants the answer must be the reference one
    want = ref_lookup(list(ts), tq, policy)
    return got == want


def defaults_consistent(kind, nsamp, s, k):
    """arguments left at their defaults mean what the documentation says: position 0 and no merge for get_trajectory, the 'closest' policy for get_sample_index"""
    tr, ns, nc = traj(kind, nsamp)
    a, b = tr.get_trajectory(s), tr.get_trajectory(s, 0, merge=False)
    if list(a.value) != list(b.value) or a.units != b.units:
        return False
    t = UnitValue(0.25 * k, "s")
    return tr.get_sample_index(t) == tr.get_sample_index(t, "closest") == tr.get_sample_index(t, policy="closest")


def species_after_relist(order, extra, s, n, i):
    """The network's species list is REASSIGNED (reordered, optionally with a new species in front) after label / object look-ups
    were already made on the network; a system and a trajectory built afterwards must resolve labels and objects to the species'
    CURRENT position: by label == by object == by index == the data entry."""
    import itertools
    net = RDNetwork(species=[Species("A", D=1), Species("B", D=2), Species("C", D=3)], reactions=[Reaction("A + B -> C", kf=1)])
    space = RDGridSpace(w=2, h=1, d=1)
    sys0 = RDSystem(net, space)
    for lab in ("A", "B", "C"):
        sys0.set_state(lab, 0, 5.0)                 # label look-ups on the network
        net.get_species_index(lab)
    for q in list(net.species):
        net.get_species_index(q)                    # object look-ups
    perm = list(itertools.permutations(range(3)))[order]
    new = [net.species[k] for k in perm]
    if extra:
        new = [Species("Z", D=4)] + new
    net.species = new
    ns, nc, nsamp = len(new), 2, 3
    if s >= ns:
        return True
    system = RDSystem(net, space)
    data = UnitArray(np.arange(nsamp * ns * nc, dtype=float), "mmol")
    tr = RDTrajectory(data, UnitArray(np.arange(nsamp, dtype=float), "s"), system)
    expect = n * ns * nc + s * nc + i
    lab = new[s].label
    for sp in (s, lab, tr.system.network.species[s], new[s]):
        if tr.get_trajectory_point(sp, n, i).value != expect:
            return False
        if tr.get_state(sp, n).value[i] != expect or tr.get_trajectory(sp, i).value[n] != expect:
            return False
    # the system's own accessors resolve the label to the same position
    system.set_state(lab, i, 77.0)
    return float(system.state.value[s * nc + i]) == 77.0 and net.get_species_index(lab) == s and system.network.get_species_index(lab) == s
