"""Static helpers of the C12 harness: dictionary / JSON round trips (dictionary and JSON-text levels; file I/O is outside)."""
import json
from strengths import *
from strengths.units import UnitValue, UnitArray, Units, UnitsSystem, UnitsDimensions, unitssystem_to_dict
from strengths.rdnetwork import species_from_dict, species_to_dict, reaction_from_dict, reaction_to_dict, rdnetwork_from_dict, rdnetwork_to_dict
from strengths.rdgraphspace import (RDGraphSpaceNode, RDGraphSpaceEdge, rdgraphspacenode_from_dict, rdgraphspacenode_to_dict, rdgraphspaceedge_from_dict,
                                    rdgraphspaceedge_to_dict, rdgraphspace_from_dict, rdgraphspace_to_dict)
from strengths.rdgridspace import rdgridspace_from_dict, rdgridspace_to_dict
from strengths.rdspace import rdspace_from_dict, rdspace_to_dict
from strengths.rdsystem import rdsystem_from_dict, rdsystem_to_dict
from strengths.rdscript import RDScript, rdscript_from_dict, rdscript_to_dict
from harness.c05lib import SYS, si, raises

_US = ["A", "B", "C", "G", "J"]
_R = list(range(12))


def us(k):
    return SYS[_US[_R[k] % len(_US)]]


def si_eq(a, b):
    if isinstance(a, dict) or isinstance(b, dict):
        if not (isinstance(a, dict) and isinstance(b, dict)) or set(a) != set(b):
            return False
        return all(si_eq(a[k], b[k]) for k in a)
    if isinstance(a, UnitValue):
        return isinstance(b, UnitValue) and a.units.dim == b.units.dim and abs(si(a) - si(b)) <= 1e-12 * max(abs(si(a)), abs(si(b)))
    return a == b


def same_species(a, b):
    return a.label == b.label and si_eq(a.D, b.D) and si_eq(a.density, b.density) and a.chstt == b.chstt and a.units_system == b.units_system


def same_reaction(a, b):
    return (a.label == b.label and a.substrates == b.substrates and a.products == b.products and si_eq(a.kf, b.kf) and si_eq(a.kr, b.kr)
            and a.units_system == b.units_system)


def same_network(a, b):
    return (len(a.species) == len(b.species) and all(same_species(x, y) for x, y in zip(a.species, b.species)) and len(a.reactions) == len(b.reactions)
            and all(same_reaction(x, y) for x, y in zip(a.reactions, b.reactions)) and tuple(a.environments) == tuple(b.environments) and a.units_system == b.units_system)


def same_space(a, b):
    if type(a) != type(b) or a.units_system != b.units_system:
        return False
    if isinstance(a, RDGridSpace):
        return ((a.w, a.h, a.d) == (b.w, b.h, b.d) and list(a.cell_env) == list(b.cell_env) and si_eq(a.cell_vol, b.cell_vol)
                and a.get_boundary_conditions() == b.get_boundary_conditions())
    if len(a.nodes) != len(b.nodes) or len(a.edges) != len(b.edges):
        return False
    for x, y in zip(a.nodes, b.nodes):
        if not (si_eq(x.volume, y.volume) and x.environment == y.environment and x.units_system == y.units_system):
            return False
    for x, y in zip(a.edges, b.edges):
        if not ((x.i, x.j) == (y.i, y.j) and si_eq(x.surface, y.surface) and si_eq(x.distance, y.distance) and x.units_system == y.units_system):
            return False
    return True


def same_array(a, b):
    if len(a) != len(b) or a.units.dim != b.units.dim:
        return False
    return all(abs(si(a.get_at(i)) - si(b.get_at(i))) <= 1e-12 * max(abs(si(a.get_at(i))), abs(si(b.get_at(i)))) for i in range(len(a)))


def same_system(a, b):
    return (same_network(a.network, b.network) and same_space(a.space, b.space) and same_array(a.state, b.state) and list(a.chemostats) == list(b.chemostats)
            and a.units_system == b.units_system)


def same_script(a, b):
    return (same_system(a.system, b.system) and same_array(a.t_sample, b.t_sample) and si_eq(a.time_step, b.time_step) and si_eq(a.t_max, b.t_max)
            and a.sampling_policy == b.sampling_policy and si_eq(a.sampling_interval, b.sampling_interval) and a.rng_seed == b.rng_seed
            and a.init_state_processing == b.init_state_processing and a.units_system == b.units_system)


def via_json(d):
    return json.loads(json.dumps(d))


# ------------------------------------------------------------------------------ builders driven by small integer flags
def mk_species(f_units, f_D, f_dens, f_ch):
    D = [0, 1.5, {"e0": 2.5, "e1": 0}, {"e1": 0.75, "default": 0.125}, "3 m2/min"][_R[f_D] % 5]
    dens = [0, 4.0, {"e0": 1.0}, {"e0": 2.0, "default": 3.0}, "2 mM"][_R[f_dens] % 5]
    ch = [False, True, {"e0": True}, {"e1": 1, "default": 0}][_R[f_ch] % 4]
    return Species("A", D=D, density=dens, chstt=ch, units_system=us(f_units))


def mk_reaction(f_units, f_eq, f_k, f_label):
    eq = ["A -> B", "A + 2 B -> 3 C", " -> A", "2 A -> ", "A + A -> B"][_R[f_eq] % 5]
    kf = [1.5, {"e0": 2.0, "e1": 0.5}, {"e0": 2.0, "default": 0.25}][_R[f_k] % 3]
    kr = [0, 0.75, {"e1": 1.0}][(_R[f_k] // 3) % 3]
    return Reaction(eq, kf=kf, kr=kr, label=[None, "r1"][_R[f_label] % 2], units_system=us(f_units))


def mk_network(f_units, f_inherit):
    u = us(f_units)
    su = u if _R[f_inherit] % 2 == 0 else SYS["B"]
    sp = [Species("A", D={"e0": 1.0, "e1": 0.25}, density=2.0, units_system=su), Species("B", D=0.5, chstt={"e1": True}, units_system=u), Species("C", units_system=u)]
    rs = [Reaction("A + B -> C", kf={"e0": 1.0, "default": 0.5}, kr=0.25, label="f", units_system=su), Reaction(" -> A", kf=3.0, units_system=u)]
    return RDNetwork(species=sp, reactions=rs, environments=["e0", "e1"], units_system=u)


_BC = ["reflecting", "periodical"]


def mk_grid(f_units, w, h, d, bx, by, bz):
    n = _R[w] * _R[h] * _R[d]
    return RDGridSpace(w=_R[w], h=_R[h], d=_R[d], cell_env=[k % 2 for k in range(n)], cell_vol=[8.0, "1 mm3"][_R[f_units] % 2],
                       boundary_conditions={"x": _BC[_R[bx] % 2], "y": _BC[_R[by] % 2], "z": _BC[_R[bz] % 2]}, units_system=us(f_units))


def mk_graph(f_units, f_node, f_edge):
    u = us(f_units)
    nu = u if _R[f_node] % 2 == 0 else SYS["B"]
    eu = u if _R[f_edge] % 2 == 0 else SYS["G"]
    nodes = [RDGraphSpaceNode(8.0, 0, nu), RDGraphSpaceNode("2 mm3", 1, u), RDGraphSpaceNode(1.0, 0, u)]
    edges = [RDGraphSpaceEdge(0, 1, 2.0, 1.5, eu), RDGraphSpaceEdge(2, 1, "3 cm2", "1 cm", u)]
    return RDGraphSpace(nodes=nodes, edges=edges, units_system=u)


def mk_system(f_units, f_space, f_inherit):
    net = mk_network(f_units, f_inherit)
    space = mk_grid(f_units, 2, 1, 1, 0, 1, 0) if _R[f_space] % 2 == 0 else mk_graph(f_units, f_inherit, 0)
    n = space.size()
    # chemostat map: an explicit pattern / explicitly ALL ZERO although species B is chemostated by default in e1 / left to the default
    mode = (_R[f_units] + _R[f_inherit]) % 3
    chem = [[k % 2 for k in range(3 * n)], [0] * (3 * n), None][mode]
    state = [1.0 + 0.5 * k for k in range(3 * n)]
    if (_R[f_units] + _R[f_space]) % 2 == 1:
        # amounts that are tiny numbers in their own units (molecule counts written in kmol): nothing may round them away
        state = UnitArray([(1.0 + 0.5 * k) * 1.6605390671738466e-27 for k in range(3 * n)], "kmol")
    return RDSystem(net, space, state=state, chemostats=chem, units_system=us(f_units))


_POL = ["on_t_sample", "on_iteration", "on_interval", "no_sampling"]
_ISP = ["auto", "none", "Poisson", "redist"]


def mk_script(f_units, f_space, f_pol, f_isp, seed):
    ts = [0, 0.5, 2.0] if _R[f_pol] % 2 == 0 else UnitArray([0.0, 1.3888888888888888e-13, 5.555555555555555e-13], "h")     # the same kind of times, tiny in hours
    return RDScript(mk_system(f_units, f_space, 1), ts, time_step=[0.125, "3.4722222222222222e-14 h"][_R[f_pol] % 2], t_max=["default", 1.5][_R[f_pol] % 2], sampling_policy=_POL[_R[f_pol] % 4],
                    sampling_interval=0.25, rng_seed=seed, init_state_processing=_ISP[_R[f_isp] % 4], units_system=us(f_units + 1))


# ------------------------------------------------------------------------------ the round-trip obligations
def rt(obj, to_d, from_d, same, parent=None, json_level=True):
    d1 = to_d(obj)
    o2 = from_d(d1) if parent is None else from_d(d1, parent)
    if not same(obj, o2):
        return False
    d2 = to_d(o2)
    if d2 != d1:
        return False
    if json_level:
        dj = via_json(d1)
        o3 = from_d(dj) if parent is None else from_d(dj, parent)
        if not same(obj, o3):
            return False
        if via_json(to_d(o3)) != dj:
            return False
    return True


def alias_same(base, synonyms, group, which, from_d, same, parent=None):
    """replacing one key by any of its accepted aliases gives the same object; two aliases of one key are refused"""
    syn = synonyms[_R[group] % len(synonyms)]
    alt = syn[_R[which] % len(syn)]
    key = next((k for k in syn if k in base), None)
    if key is None:
        return True
    d = dict(base)
    v = d.pop(key)
    d[alt] = v
    a = from_d(base) if parent is None else from_d(base, parent)
    b = from_d(d) if parent is None else from_d(d, parent)
    ok = same(a, b)
    if len(syn) > 1:
        other = [s for s in syn if s != alt][0]
        d2 = dict(d)
        d2[other] = v
        ok = ok and raises(lambda: from_d(d2) if parent is None else from_d(d2, parent))
    return ok


# ------------------------------------------------------------------------------ copies and arguments are independent objects
def copy_is_independent(kind, u):
    """copy() gives an equal object that shares nothing mutable with the original: editing the copy (top level and nested parts)
    leaves the original's dictionary unchanged"""
    import copy as _c
    if kind == 0:
        a, to_d, same = mk_species(u, 3, 3, 2), species_to_dict, same_species
        edit = lambda b: (setattr(b, "density", 9.0), b.D.__setitem__("e1", UnitValue(5.0, b.D["e1"].units)) if isinstance(b.D, dict) else None)
    elif kind == 1:
        a, to_d, same = mk_reaction(u, 1, 1, 1), reaction_to_dict, same_reaction
        edit = lambda b: (setattr(b, "kr", 7.0), b.kf.__setitem__("e0", UnitValue(5.0, b.kf["e0"].units)) if isinstance(b.kf, dict) else None)
    elif kind == 2:
        a, to_d, same = mk_network(u, 1), rdnetwork_to_dict, same_network
        edit = lambda b: (setattr(b.species[0], "density", 9.0), setattr(b.reactions[0], "kr", 7.0))
    elif kind == 3:
        a, to_d, same = mk_grid(u, 2, 1, 2, 0, 1, 0), rdgridspace_to_dict, same_space
        edit = lambda b: (setattr(b, "cell_vol", 27.0), b.set_boundary_conditions({"x": "periodical", "y": "reflecting", "z": "periodical"}), b.cell_env.__setitem__(0, 1))
    elif kind == 4:
        a, to_d, same = mk_graph(u, 1, 1), rdgraphspace_to_dict, same_space
        edit = lambda b: (setattr(b.nodes[0], "volume", 5.0), setattr(b.edges[0], "surface", 9.0))
    elif kind == 5:
        a, to_d, same = mk_system(u, 0, 1), rdsystem_to_dict, same_system
        edit = lambda b: (b.set_state(0, 0, 99.0), b.set_chemostat(1, 0, 1 - int(b.get_chemostat(1, 0))), setattr(b.network.species[0], "density", 9.0))
    else:
        a, to_d, same = mk_script(u, 1, 1, 2, 3), rdscript_to_dict, same_script
        edit = lambda b: (setattr(b, "time_step", 0.5), b.system.set_state(0, 0, 99.0), b.t_sample.value.__setitem__(1, 0.75))
    before = _c.deepcopy(to_d(a))
    b = a.copy()
    if b is a or not same(a, b) or to_d(b) != before:
        return False
    edit(b)
    return to_d(a) == before and to_d(b) != before


def dict_after_edit(kind, u):
    """serialisation follows the CURRENT content: an object that was already serialised (and read back) once and is then edited
    serialises like a freshly built object given the same edit; the dictionary read back describes the edited object"""
    mk = [lambda: mk_species(u, 3, 3, 2), lambda: mk_reaction(u, 1, 1, 1), lambda: mk_network(u, 1), lambda: mk_grid(u, 2, 1, 2, 0, 1, 0), lambda: mk_graph(u, 1, 1),
          lambda: mk_system(u, 0, 1), lambda: mk_script(u, 1, 1, 2, 3)][kind]
    to_d = [species_to_dict, reaction_to_dict, rdnetwork_to_dict, rdgridspace_to_dict, rdgraphspace_to_dict, rdsystem_to_dict, rdscript_to_dict][kind]
    from_d = [species_from_dict, reaction_from_dict, rdnetwork_from_dict, rdgridspace_from_dict, rdgraphspace_from_dict, rdsystem_from_dict, rdscript_from_dict][kind]
    same = [same_species, same_reaction, same_network, same_space, same_space, same_system, same_script][kind]
    edit = [lambda b: (setattr(b, "density", 9.0), setattr(b, "chstt", True), b.D.__setitem__("e1", UnitValue(5.0, b.D["e1"].units)) if isinstance(b.D, dict) else setattr(b, "D", 5.0)),
            lambda b: (setattr(b, "kr", 7.0), b.kf.__setitem__("e0", UnitValue(5.0, b.kf["e0"].units)) if isinstance(b.kf, dict) else setattr(b, "kf", 5.0)),
            lambda b: (setattr(b.species[0], "density", 9.0), setattr(b.reactions[0], "kr", 7.0)),
            lambda b: (setattr(b, "cell_vol", 27.0), b.set_boundary_conditions({"x": "periodical", "y": "reflecting", "z": "periodical"}), setattr(b, "cell_env", [1 - int(e) for e in b.get_cell_env_array()])),
            lambda b: (setattr(b.nodes[0], "volume", 5.0), setattr(b.edges[0], "surface", 9.0), setattr(b.edges[0], "distance", 4.0)),
            lambda b: (b.set_state(0, 0, 99.0), b.set_chemostat(1, 0, 1 - int(b.get_chemostat(1, 0)))),
            lambda b: (setattr(b, "time_step", 0.5), setattr(b, "rng_seed", 4242), b.system.set_state(0, 0, 99.0))][kind]
    a = mk()
    d0 = to_d(a)
    from_d(via_json(d0))
    a.copy()
    edit(a)
    fresh = mk()
    edit(fresh)
    d1 = to_d(a)
    return d1 == to_d(fresh) and d1 != d0 and same(from_d(via_json(d1)), fresh)


def units_argument_not_aliased(kind):
    """the units system handed to a constructor (or a setter) is copied: editing the caller's object afterwards changes nothing in the model"""
    us_ = UnitsSystem("mm", "min", "mmol")
    ref = UnitsSystem("mm", "min", "mmol")
    obj = [lambda: Species("A", density=1.0, units_system=us_), lambda: Reaction("A -> B", kf=1.0, units_system=us_),
           lambda: RDNetwork(species=[Species("A")], reactions=[], units_system=us_), lambda: RDGridSpace(w=2, cell_vol=8.0, units_system=us_),
           lambda: RDGraphSpace(nodes=[RDGraphSpaceNode(1.0, 0, us_)], edges=[], units_system=us_), lambda: RDSystem(RDNetwork(species=[Species("A")], reactions=[]), RDGridSpace(), units_system=us_),
           lambda: RDScript(RDSystem(RDNetwork(species=[Species("A")], reactions=[]), RDGridSpace()), [0, 1.0], units_system=us_)][kind]()
    d0 = unitssystem_to_dict(obj.units_system)
    us_["space"] = "km"
    us_["quantity"] = "molecule"
    if kind == 4 and obj.nodes[0].units_system != ref:
        return False
    return obj.units_system == ref and unitssystem_to_dict(obj.units_system) == d0 and obj.units_system is not us_


def script_dict_times(u, tu):
    """a script DICTIONARY whose sample times carry their own unit (other than the script's time unit): the loaded script holds those
    times as physical quantities, the default t_max is the last of them, and writing it out and reading it again changes nothing"""
    unit = ["min", "h", "ms", "s", "µs"][tu % 5]
    fac = {"min": 60.0, "h": 3600.0, "ms": 1e-3, "s": 1.0, "µs": 1e-6}[unit]
    d = {"system": rdsystem_to_dict(mk_system(u, 0, 1)), "t_sample": {"value": [0.0, 0.5, 1.0, 2.0], "units": unit}, "units": unitssystem_to_dict(us(u + 1))}
    sc = rdscript_from_dict(d)
    want = [0.0, 0.5 * fac, 1.0 * fac, 2.0 * fac]
    got = [si(sc.t_sample.get_at(i)) for i in range(4)]
    if any(abs(a - b) > 1e-12 * max(abs(b), 1e-300) for a, b in zip(got, want)):
        return False
    if abs(si(sc.t_max) - want[-1]) > 1e-12 * want[-1]:
        return False
    back = rdscript_from_dict(via_json(rdscript_to_dict(sc)))
    return same_script(sc, back) and all(abs(si(back.t_sample.get_at(i)) - want[i]) <= 1e-12 * max(want[i], 1e-300) for i in range(4)) and abs(si(back.t_max) - want[-1]) <= 1e-12 * want[-1]
