"""Static helpers of the C18 harness: unit / quantity text."""
from strengths.units import UnitValue, Units, UnitsSystem, UnitsDimensions, parse_units, parse_unitvalue, _units_conversion_dict
from harness.c05lib import SYS, si_factor, raises
from harness.c06lib import si_spec, derived_spec
import math


def log_si_factor(us, dim):
    return sum(math.log10(_units_conversion_dict[k][us[k]]) * dim[k] for k in ("space", "time", "quantity"))

_SPEC = si_spec()
_LIT, _MOL = derived_spec()
_LITBASE = {"kL": "m", "L": "dm", "mL": "cm", "µL": "mm", "nL": "dmm", "pL": "cmm", "fL": "µm"}
SYMBOLS = {}
for _k in ("space", "time", "quantity"):
    for _s, _v in _SPEC[_k].items():
        SYMBOLS[_s] = ({_k: 1}, _v, {_k: _s})
for _s, _v in _LIT.items():
    SYMBOLS[_s] = ({"space": 3}, _v, {"space": _LITBASE[_s]})
for _s, _v in _MOL.items():
    SYMBOLS[_s] = ({"space": -3, "quantity": 1}, _v, {"space": "dm", "quantity": _s[:-1] + "mol"})
# base symbols the module supports beyond the specification above (none today) are accepted with the module's own scale:
# the grammar, not the symbol inventory, is what the rejection obligations are about
for _k in ("space", "time", "quantity"):
    for _s, _v in _units_conversion_dict[_k].items():
        if _s not in SYMBOLS:
            SYMBOLS[_s] = ({_k: 1}, _v, {_k: _s})


def _micro(s):
    # the documented alternative spelling: u for micro in um, us, umol, uL, uM
    for a in ("umol", "um", "us", "uL", "uM"):
        s = s.replace(a, "µ" + a[1:])
    return s


def reference(s):
    """Recogniser of the DOCUMENTED unit grammar. Returns None (not a unit expression) or
    (dimension dict, log10 of the SI scale). Written from the documentation, not from parse_units."""
    s = s.strip()
    if s == "":
        return ({"space": 0, "time": 0, "quantity": 0}, 0.0)
    if any(c.isspace() for c in s):
        return None
    s = _micro(s)
    dims = {"space": 0, "time": 0, "quantity": 0}
    base = {}
    scale = 0.0
    i, sign, first = 0, 1, True
    n = len(s)
    while True:
        if not first:
            if i >= n or s[i] not in "./":
                return None
            sign = -1 if s[i] == "/" else 1
            i += 1
        first = False
        j = i
        while j < n and s[j] not in "./-0123456789":
            j += 1
        sym = s[i:j]
        if sym not in SYMBOLS:
            return None
        k = j
        if k < n and s[k] == "-":
            k += 1
        d0 = k
        while k < n and s[k].isdigit():
            k += 1
        etext = s[j:k]
        if etext == "":
            e = 1
        else:
            if k == d0:
                return None          # a bare '-'
            e = int(etext)
        e *= sign
        sdim, sscale, sbase = SYMBOLS[sym]
        for kind, b in sbase.items():
            if kind in base and base[kind] != b:
                return None          # two different units of one base kind
            base[kind] = b
        for kind, p in sdim.items():
            dims[kind] += p * e
        scale += math.log10(sscale) * e
        i = k
        if i >= n:
            return (dims, scale)


def code_reading(s):
    """What parse_units makes of s: None if it raises, else (dimension dict, SI scale)."""
    try:
        u = parse_units(s)
    except Exception:
        return None
    d = {k: u.dim[k] for k in ("space", "time", "quantity")}
    try:
        return (d, log_si_factor(u.sys, u.dim))
    except KeyError:
        # the text was ACCEPTED with a unit symbol that is not in the conversion table: a reading no reference reading equals
        return (d, float("nan"))


def same_reading(s):
    """Text outside the grammar raises; text inside is read with the dimension and SI scale its symbols define."""
    r, c = reference(s), code_reading(s)
    if r is None:
        return c is None
    if c is None:
        return False
    return r[0] == c[0] and abs(r[1] - c[1]) <= 1e-9


def quantity_reference(s):
    """'<number> <unit text>': None if malformed, else (value, dims, scale)."""
    t = s.strip().split()
    if len(t) == 0:
        return "empty"
    if len(t) > 2:
        return None
    try:
        v = float(t[0])
    except ValueError:
        return None
    r = reference(t[1]) if len(t) == 2 else reference("")
    if r is None:
        return None
    return (v, r[0], r[1])


def same_quantity_reading(s):
    r = quantity_reference(s)
    if r == "empty":
        return True
    try:
        q = parse_unitvalue(s)
    except Exception:
        return r is None
    if r is None:
        return False
    d = {k: q.units.dim[k] for k in ("space", "time", "quantity")}
    sc = log_si_factor(q.units.sys, q.units.dim)
    return q.value == r[0] and d == r[1] and abs(sc - r[2]) <= 1e-9


def print_parse(us, d):
    u = Units(SYS[us], UnitsDimensions(*d))
    p = parse_units(str(u))
    if (p.dim["space"], p.dim["time"], p.dim["quantity"]) != tuple(d):
        return False
    for k, e in zip(("space", "time", "quantity"), d):
        if e != 0 and p.sys[k] != u.sys[k]:
            return False
    return p == u


def print_parse_value(a, us, d):
    v = UnitValue(a, Units(SYS[us], UnitsDimensions(*d)))
    p = parse_unitvalue(str(v))
    return p.value == v.value and p.units == v.units


_FRESH_TEXTS = ["µm2.s-1", "mol/L", "mol.L-1", "nL", "M", "s", "molecule/µm3", "um", "km.h-1", "mmol.min-1"]


def _snap(u):
    return (tuple(u.sys[k] for k in ("space", "time", "quantity")), tuple(u.dim[k] for k in ("space", "time", "quantity")))


def parse_fresh(k, m):
    """reading a text is a pure function of the text: every call returns its own object, and editing one result (exponents or
    base units, through the public item setters) changes nothing about what the same text - through any entry point - reads as later"""
    t = _FRESH_TEXTS[k % len(_FRESH_TEXTS)]
    u1 = parse_units(t)
    ref = _snap(u1)
    v1 = parse_unitvalue("2.5 " + t)
    if m == 0:
        u1.dim["time"] = u1.dim["time"] + 3
        v1.units.dim["space"] = 7
    elif m == 1:
        u1.sys["space"] = "km" if u1.sys["space"] != "km" else "nm"
        v1.units.sys["quantity"] = "kmol"
    else:
        u1.dim["quantity"] = -4
        u1.sys["time"] = "h" if u1.sys["time"] != "h" else "fs"
    u2 = parse_units(t)
    if u2 is u1 or _snap(u2) != ref:
        return False
    if _snap(Units(t)) != ref or _snap(UnitValue(1.0, t).units) != ref:
        return False
    v2 = parse_unitvalue("2.5 " + t)
    return v2.value == 2.5 and _snap(v2.units) == ref and v2.units is not v1.units


_HARD_DOUBLES = [0.1 + 0.2, 1.1 * 3, 2 ** 0.5, 1.0 / 3.0, 1e-05 * 3, math.pi, 123456789.12345679, 5e-324, 1.7976931348623157e308, 2.2250738585072014e-308,
                 0.30000000000000004, 9007199254740993.0, 1e22, 1e23, 6.02214076e23 / 7, -0.1 - 0.2, 4.35, 0.7 + 0.1, 1e-300 * 3.3, 1 - 2 ** -53]


def print_parse_hard(k, u):
    """printing a quantity and reading the text back gives the SAME double, also for doubles whose shortest exact decimal form needs 17 significant digits"""
    a = _HARD_DOUBLES[k % len(_HARD_DOUBLES)]
    us = "ABGJ"[u % 4]
    q = UnitValue(a, Units(SYS[us], UnitsDimensions(1, -2, 1)))
    back = parse_unitvalue(str(q))
    return back.value == a and back.units == q.units and str(back) == str(q)
