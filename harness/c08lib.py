"""Static helpers shared by the C08 / C10 Python legs: an engine set-up only reads the script."""
import copy as _copy
from strengths import *
from strengths.rdscript import RDScript, rdscript_to_dict, rdscript_from_dict
from strengths.librdengine import LibRDEngine
from harness.c12lib import mk_system, mk_script
from vt.glue import RecLib, GRID_NAMES


def _abi(option, sc, keep=None):
    lib = RecLib()
    e = LibRDEngine(lib, option=option, requires_molecules=option != "euler")
    e.setup(sc)
    if keep is not None:
        keep.append(e)
    return [c for c in lib.log if c[0].startswith("engineexport_initialize")][0]


def setup_is_pure(f_units, f_space, o1, o2):
    """setting an engine up reads the script and never writes it: the script's dictionary is unchanged, and what ANY later set-up of the same script object hands to the native engine equals what a freshly built identical script gives"""
    opts = ["euler", "tauleap", "gillespie"]
    sc = mk_script(f_units, f_space, 0, 1, 7)
    before = _copy.deepcopy(rdscript_to_dict(sc))
    kept = []
    _abi(opts[o1], sc, kept)
    if rdscript_to_dict(sc) != before:
        return False
    # the script the engine keeps (and returns with the trajectory) is the caller's script, field for field - sampling policy,
    # initial-state processing mode, seed, units ... - apart from the quantity unit a stochastic engine switches to molecules
    stored = rdscript_to_dict(kept[0]._script)
    for k_ in before:
        if k_ in ("system", "units"):
            continue
        if stored.get(k_) != before[k_]:
            return False
    if stored["system"] != before["system"]:
        return False
    second = _abi(opts[o2], sc)
    fresh = _abi(opts[o2], mk_script(f_units, f_space, 0, 1, 7))
    return second == fresh and rdscript_to_dict(sc) == before


def drawn_seed_is_the_one_used(opt, f_space):
    """no seed given: the seed handed to the native engine is the seed stored in the script the engine keeps (and returns with the
    trajectory) and the one the caller's script reports - so that re-running the stored script reproduces the run"""
    option = ["euler", "tauleap", "gillespie"][opt]
    sysm = mk_system(0, f_space, 0)
    sc = RDScript(sysm, [0, 1.0])                 # no rng_seed
    lib = RecLib()
    e = LibRDEngine(lib, option=option, requires_molecules=option != "euler")
    e.setup(sc)                                   # the seed is NOT read before the set-up, as in simulate()
    name, vals = [c for c in lib.log if c[0].startswith("engineexport_initialize")][0]
    from vt.glue import GRAPH_NAMES
    got = dict(zip(GRID_NAMES if name.endswith("grid") else GRAPH_NAMES, vals))["seed"]
    kept = e._script.rng_seed
    mine = sc.rng_seed
    return isinstance(kept, int) and (got - kept) % (2 ** 32) == 0 and kept == mine and e._script.copy().rng_seed == kept


def engine_reuse_is_fresh(opt, f_space, edit):
    """an engine object that already simulated gives, for a script edited in place since then, exactly what a fresh engine object gives
    (nothing about the earlier set-up survives in the Python wrapper)"""
    option = ["euler", "tauleap", "gillespie"][opt]
    sc = mk_script(0, f_space, 0, 1, 7)
    lib = RecLib()
    e = LibRDEngine(lib, option=option, requires_molecules=option != "euler")
    e.setup(sc)
    net = sc.system.network
    if edit == 0:
        net.reactions[0].kf = 6.5                                  # a rate constant edited in place (parameter scan)
    elif edit == 1:
        net.reactions[0].kr = {"e0": 2.0, "e1": 0.125}
    elif edit == 2:
        net.species[0].D = 3.25
    elif edit == 3:
        sc.system.set_state(0, 0, 41.0)
    elif edit == 4:
        sc.system.set_chemostat(1, 0, 1 - int(sc.system.get_chemostat(1, 0)))
    else:
        sc.time_step = 0.0625
    e.setup(sc)
    calls = [c for c in lib.log if c[0].startswith("engineexport_initialize")]
    fresh = _abi(option, sc)
    return len(calls) == 2 and calls[1] == fresh and calls[0] != calls[1]
