"""Static helpers of the C06 harness: conversion = exact SI scaling, composes."""
from strengths import units as U
from strengths.units import UnitValue, UnitArray, Units, UnitsSystem, UnitsDimensions, compute_conversion_factor, convert_value
from harness.c05lib import SYS, si, si_factor, dims, raises

PREFIX = {"k": 1e3, "": 1.0, "d": 1e-1, "c": 1e-2, "m": 1e-3, "dm": 1e-4, "cm": 1e-5, "µ": 1e-6, "n": 1e-9, "p": 1e-12, "f": 1e-15}
AVOGADRO = 6.02214076e23


def si_spec():
    """SI meaning of every base symbol, written from the SI definitions (not from the module's table)."""
    sp = {"space": {}, "time": {}, "quantity": {}}
    for p in ("k", "", "d", "c", "m", "dm", "cm", "µ", "n", "p", "f"):
        sp["space"][p + "m"] = PREFIX[p]
    sp["time"] = {"h": 3600.0, "min": 60.0, "s": 1.0, "ds": 1e-1, "cs": 1e-2, "ms": 1e-3, "µs": 1e-6, "ns": 1e-9, "ps": 1e-12, "fs": 1e-15}
    for p in ("k", "", "d", "c", "m", "µ", "n", "p", "f"):
        sp["quantity"][p + "mol"] = PREFIX[p] * AVOGADRO
    sp["quantity"]["molecule"] = 1.0
    return sp


def derived_spec():
    """litre family (m^3 per unit) and molar family (molecules per m^3 per unit)."""
    lit = {"kL": 1.0, "L": 1e-3, "mL": 1e-6, "µL": 1e-9, "nL": 1e-12, "pL": 1e-15, "fL": 1e-18}
    mol = {p + "M": PREFIX[p] * AVOGADRO / 1e-3 for p in ("k", "", "d", "c", "m", "µ", "n", "p", "f")}
    return lit, mol


def rel(x, y, tol=1e-12):
    return abs(x - y) <= tol * max(abs(x), abs(y))


def conv_si(a, us1, us2, d):
    v = UnitValue(a, Units(SYS[us1], UnitsDimensions(*d)))
    r = v.convert(SYS[us2])
    return abs(si(r) - si(v)) <= 1e-9 * abs(si(v)) and dims(r) == tuple(d) and r.units.sys == SYS[us2]


def conv_identity(a, us, d):
    v = UnitValue(a, Units(SYS[us], UnitsDimensions(*d)))
    r = v.convert(SYS[us])
    return r.value == v.value and dims(r) == tuple(d)


def conv_roundtrip(a, us1, us2, us3, d):
    v = UnitValue(a, Units(SYS[us1], UnitsDimensions(*d)))
    back = v.convert(SYS[us2]).convert(SYS[us1])
    via = v.convert(SYS[us2]).convert(SYS[us3])
    direct = v.convert(SYS[us3])
    return abs(back.value - v.value) <= 1e-9 * abs(v.value) and abs(via.value - direct.value) <= 1e-9 * abs(direct.value) and dims(via) == tuple(d)


def conv_forms(a, us1, us2, d):
    v = UnitValue(a, Units(SYS[us1], UnitsDimensions(*d)))
    tgt = Units(SYS[us2], UnitsDimensions(*d))
    ref = v.convert(SYS[us2]).value
    r1 = v.convert(tgt).value
    r2 = v.convert(UnitValue(1.0, tgt)).value
    r3 = v.convert({"space": SYS[us2]["space"], "time": SYS[us2]["time"], "quantity": SYS[us2]["quantity"]}).value
    r4 = v.convert(str(tgt)).value if any(d) else ref   # the text form names only the bases with non-zero exponent
    ok4 = True
    if any(d):
        # the string form leaves bases with zero exponent at the default system: compare in SI instead
        ok4 = abs(si(v.convert(str(tgt))) - si(v)) <= 1e-9 * abs(si(v))
    return r1 == ref and r2 == ref and r3 == ref and ok4


def conv_mismatch(a, us1, us2, d, d2):
    v = UnitValue(a, Units(SYS[us1], UnitsDimensions(*d)))
    tgt = Units(SYS[us2], UnitsDimensions(*d2))
    return raises(lambda: v.convert(tgt)) and raises(lambda: v.convert(UnitValue(1.0, tgt)))


def conv_mismatch_text(a, us1, us2, d, d2):
    v = UnitValue(a, Units(SYS[us1], UnitsDimensions(*d)))
    tgt = Units(SYS[us2], UnitsDimensions(*d2))
    # (the constructor form uses a concrete magnitude: formatting a symbolic float would make the path tree explode)
    return raises(lambda: v.convert(str(tgt))) and raises(lambda: UnitValue("2.5 " + str(v.units), str(tgt)))


def composition(kind, e, xa, xb, xc):
    """f(a->b) f(b->c) = f(a->c), f(a->a) = 1, f(a->b) f(b->a) = 1 for ARBITRARY positive table values."""
    names = {"space": ("km", "µm", "fm"), "time": ("h", "ms", "fs"), "quantity": ("kmol", "mol", "molecule")}[kind]
    tab = U._units_conversion_dict[kind]
    saved = {n: tab[n] for n in names}
    try:
        tab[names[0]], tab[names[1]], tab[names[2]] = xa, xb, xc
        def us(n):
            kw = {"space": "µm", "time": "s", "quantity": "molecule"}
            kw[kind] = n
            return UnitsSystem(**kw)
        dim = UnitsDimensions(**{kind: e})
        fab = compute_conversion_factor(us(names[0]), us(names[1]), dim)
        fbc = compute_conversion_factor(us(names[1]), us(names[2]), dim)
        fac = compute_conversion_factor(us(names[0]), us(names[2]), dim)
        fba = compute_conversion_factor(us(names[1]), us(names[0]), dim)
        faa = compute_conversion_factor(us(names[0]), us(names[0]), dim)
        return fab * fbc == fac and faa == 1 and fab * fba == 1
    finally:
        for n, v in saved.items():
            tab[n] = v


def array_convert(vals, us1, us2, d):
    arr = UnitArray(list(vals), Units(SYS[us1], UnitsDimensions(*d)))
    r = arr.convert(SYS[us2])
    if len(r) != len(vals) or dims(r) != tuple(d):
        return False
    for i, x in enumerate(vals):
        s = UnitValue(x, Units(SYS[us1], UnitsDimensions(*d))).convert(SYS[us2]).value
        if abs(float(r.value[i]) - s) > 1e-12 * abs(s):
            return False
    return True


LAT6 = [-1.75, 0.0, 0.5, 3.25]


_NEG_DIMS = [(0, -1, 0), (-3, 0, 0), (-1, -1, 0), (0, -1, -1), (-3, -1, -1), (0, 0, -1)]      # every non-zero exponent negative


def array_convert_forms(ia, ib, us1, us2, d, form):
    """UnitArray.convert agrees element-wise with the scalar conversion for every accepted target form (values from a lattice),
    for the given dimension and for dimensions whose exponents are all <= 0"""
    return all(_array_convert_forms(ia, ib, us1, us2, dd, form) for dd in [tuple(d)] + _NEG_DIMS)


def _array_convert_forms(ia, ib, us1, us2, d, form):
    vals = [LAT6[ia], LAT6[ib], 2.0]
    arr = UnitArray(list(vals), Units(SYS[us1], UnitsDimensions(*d)))
    tgt_u = Units(SYS[us2], UnitsDimensions(*d))
    tgt = {"sys": SYS[us2], "units": tgt_u, "uv": UnitValue(1.0, tgt_u), "dict": {"space": SYS[us2]["space"], "time": SYS[us2]["time"], "quantity": SYS[us2]["quantity"]},
           "str": str(tgt_u)}[form]
    r = arr.convert(tgt)
    if len(r) != 3 or dims(r) != tuple(d):
        return False
    # conversion returns a new quantity: the source keeps its numbers and units, and converting it again gives the same result
    if [float(v) for v in arr.value] != [float(v) for v in vals] or arr.units != Units(SYS[us1], UnitsDimensions(*d)):
        return False
    r2 = arr.convert(tgt)
    if [float(v) for v in r2.value] != [float(v) for v in r.value] or r2.value is r.value:
        return False
    back = r.convert(Units(SYS[us1], UnitsDimensions(*d)))
    if any(abs(float(b) - x) > 1e-9 * abs(x) for b, x in zip(back.value, vals)):
        return False
    for i, x in enumerate(vals):
        sv = UnitValue(x, Units(SYS[us1], UnitsDimensions(*d)))
        if abs(si(r.get_at(i)) - si(sv)) > 1e-9 * abs(si(sv)):
            return False
        if form != "str" and r.units.sys != SYS[us2]:
            return False
    return True


_SP = ["km", "m", "dm", "cm", "mm", "dmm", "cmm", "µm", "nm", "pm", "fm"]
_TI = ["h", "min", "s", "ds", "cs", "ms", "µs", "ns", "ps", "fs"]
_QU = ["kmol", "mol", "dmol", "cmol", "mmol", "µmol", "nmol", "pmol", "fmol", "molecule"]
_DV = [(1, 0, 0), (1, -1, 0), (0, 1, 0), (-3, 0, 1), (2, -1, 0), (3, -1, -1)]
_SPEC = None


def all_systems(si_, ti, qi, di):
    """every one of the 1100 unit systems, visited one after the other IN THE SAME PROCESS (results must not depend on
    which conversions ran before): conversion to and from a fixed target equals the SI-table factor"""
    global _SPEC
    if _SPEC is None:
        _SPEC = si_spec()
    import math
    us = UnitsSystem(_SP[si_], _TI[ti], _QU[qi])
    d = _DV[di]
    dim = UnitsDimensions(*d)
    tgt = UnitsSystem("µm", "s", "molecule")
    want = (math.log10(_SPEC["space"][_SP[si_]]) - math.log10(1e-6)) * d[0] + math.log10(_SPEC["time"][_TI[ti]]) * d[1] + math.log10(_SPEC["quantity"][_QU[qi]]) * d[2]
    f = compute_conversion_factor(us, tgt, dim)
    g = compute_conversion_factor(tgt, us, dim)
    v = UnitValue(2.0, Units(us, dim)).convert(tgt).value
    return abs(math.log10(f) - want) <= 1e-9 and abs(math.log10(g) + want) <= 1e-9 and abs(math.log10(v / 2.0) - want) <= 1e-9


_FIELDS = ("space", "time", "quantity")


def mutated_system(ia, ib, fld, how, di):
    """A UnitsSystem object is mutable. One that has already been USED in conversions (as target and as the system of a source
    value) and is then modified - by attribute (how 0), by item (how 1), on a copy() taken after the first use (how 2), or through a
    Units / UnitValue that carries it (how 3) - must convert exactly like a freshly built system with the same content."""
    names = sorted(SYS)
    a, b = SYS[names[ia]], SYS[names[ib]]
    f = _FIELDS[fld]
    d = _DV[di]
    dim = UnitsDimensions(*d)
    us = UnitsSystem(a["space"], a["time"], a["quantity"])
    probe = UnitValue(3.0, Units(SYS["G"], dim))
    carried = UnitValue(5.0, Units(us, dim)) if how == 3 else None
    # first use, in every role
    probe.convert(us)
    UnitValue(2.0, Units(us, dim)).convert(SYS["G"])
    compute_conversion_factor(us, SYS["B"], dim)
    compute_conversion_factor(SYS["B"], us, dim)
    if how == 0:
        setattr(us, f, b[f])
    elif how == 1:
        us[f] = b[f]
    elif how == 2:
        us = us.copy()
        setattr(us, f, b[f])
    else:
        us = carried.units.sys
        setattr(us, f, b[f])
    fresh = UnitsSystem(us["space"], us["time"], us["quantity"])
    if fresh[f] != b[f]:
        return False
    ok = compute_conversion_factor(us, SYS["B"], dim) == compute_conversion_factor(fresh, SYS["B"], dim)
    ok = ok and compute_conversion_factor(SYS["B"], us, dim) == compute_conversion_factor(SYS["B"], fresh, dim)
    ok = ok and probe.convert(us).value == probe.convert(fresh).value
    ok = ok and UnitValue(2.0, Units(us, dim)).convert(SYS["G"]).value == UnitValue(2.0, Units(fresh, dim)).convert(SYS["G"]).value
    r = probe.convert(us)
    ok = ok and abs(si(r) - si(probe)) <= 1e-9 * abs(si(probe))
    arr = UnitArray([1.0, 2.0], Units(SYS["G"], dim))
    ok = ok and list(arr.convert(us).value) == list(arr.convert(fresh).value)
    return ok


_MIXED = [("mM.mL", 1e-3 * AVOGADRO / 1e-3 * 1e-6, (0, 0, 1)), ("µM.µm/s", 1e-6 * AVOGADRO / 1e-3 * 1e-6, (-2, -1, 1)), ("M-1.cm-1", 1.0 / (AVOGADRO / 1e-3) / 1e-2, (2, 0, -1)),
          ("m/s/min", 1.0 / 60.0, (1, -2, 0)), ("mol.molecule-1", AVOGADRO, (0, 0, 0)), ("L.µm-3", 1e-3 / 1e-18, (0, 0, 0)), ("nM.fL", 1e-9 * AVOGADRO / 1e-3 * 1e-18, (0, 0, 1)),
          ("h.s-1", 3600.0, (0, 0, 0)), ("mm2.µm", 1e-6 * 1e-6, (3, 0, 0))]


def mixed_symbols(k, form):
    """unit TEXT in which two symbols disagree on the unit of one base (mM next to mL is fine: both dm3; mM next to µm is not
    expressible in one units system): the text is either refused, or - if it is accepted - the quantity has the SI value its
    symbols define (each symbol keeps its own SI meaning); never a value in which one symbol silently took another one's unit"""
    text, si_per_unit, d = _MIXED[k]
    try:
        v = UnitValue(2.0, text) if form == 0 else (UnitValue("2 " + text) if form == 1 else UnitValue(2.0, Units(SYS["A"], UnitsDimensions(*d))).convert(text))
    except Exception:
        return True
    if form == 2:
        want = 2.0 * si_factor(SYS["A"], UnitsDimensions(*d))
    else:
        want = 2.0 * si_per_unit
    return dims(v) == tuple(d) and abs(si(v) - want) <= 1e-9 * abs(want)
