"""Static helpers of the C13 harness: default state, chemostat map, accessors."""
import numpy as np
from strengths import *
from strengths.units import UnitValue, UnitArray, Units, UnitsSystem, UnitsDimensions
from strengths.rdgraphspace import RDGraphSpaceNode as N, RDGraphSpaceEdge as E
from harness.c05lib import SYS, si, si_factor, raises
from harness.c15lib import Coord

ENVS = ["e0", "e1", "e2"]
_E = [0, 1, 2]


def network(us_net="A", us_sp="A"):
    sp = [Species("A", density={"e0": 2.5, "e1 , e2": 0.75}, chstt={"e1": True}, units_system=SYS[us_sp]),      # a grouped key, with blanks around the comma
          Species("B", density={"e2": 4.0, "default": 1.25}, chstt=True, units_system=SYS[us_sp]),
          Species("C", density={"e0": "2 µM", "e1": "500 nM", "default": "150 molecule/µm3"}, chstt={"e0": 1, "default": 0}, units_system=SYS[us_sp]),     # entries in different units
          Species("D", chstt={"e1": False, "e2": 0, "default": True}, density={"e0": 0, "default": 1.5}, units_system=SYS[us_sp])]
    return RDNetwork(species=sp, reactions=[], environments=ENVS, units_system=SYS[us_net])


def expected_density(s, env):
    """molecules... in the species' own units: the per-environment value, else 'default', else 0"""
    return [{"e0": 2.5, "e1": 0.75, "e2": 0.75}.get(env, 0.0), {"e2": 4.0}.get(env, 1.25), None, {"e0": 0.0}.get(env, 1.5)][s]      # species C: explicit units, see default_ok


def expected_flag(s, env):
    return [1 if env == "e1" else 0, 1, 1 if env == "e0" else 0, 1 if env == "e0" else 0][s]


def grid_system(w, h, d, envmap, us_net="A", us_sp="A", us_space="A", us_sys="A", vol=8.0):
    net = network(us_net, us_sp)
    space = RDGridSpace(w=w, h=h, d=d, cell_env=[_E[e] for e in envmap], cell_vol=vol, units_system=SYS[us_space])
    return RDSystem(net, space, units_system=SYS[us_sys])


def graph_system(envmap, vols, us_net="A", us_sp="A", us_space="A", us_node="A", us_sys="A"):
    net = network(us_net, us_sp)
    nodes = [N(volume=v, environment=_E[e], units_system=SYS[us_node]) for v, e in zip(vols, envmap)]
    edges = [E(i, i + 1) for i in range(len(nodes) - 1)]
    return RDSystem(net, RDGraphSpace(nodes=nodes, edges=edges, units_system=SYS[us_space]), units_system=SYS[us_sys])


def default_ok(system, envmap, vols_si, us_sp):
    """entry (s,i) = density(env(i)) * volume(i) as an amount, species-major; chemostat entry = flag(env(i))"""
    n = len(envmap)
    st, ch = system.state, system.chemostats
    if len(st) != 4 * n or len(ch) != 4 * n:
        return False
    dim_d = UnitsDimensions(-3, 0, 1)
    for s in range(4):
        for i in range(n):
            env = ENVS[envmap[i]]
            dens_si = expected_density(s, env) * si_factor(SYS[us_sp], dim_d) if s != 2 else {"e0": 2e-3 * 6.02214076e23, "e1": 0.5e-3 * 6.02214076e23}.get(env, 150e18)
            want = dens_si * vols_si[i]
            got = si(st.get_at(s * n + i))
            if abs(got - want) > 1e-9 * abs(want) + 1e-300:
                return False
            if int(ch[s * n + i]) != expected_flag(s, env):
                return False
    d = st.units.dim
    return (d["space"], d["time"], d["quantity"]) == (0, 0, 1)


def default_grid(w, h, d, envmap, us_net, us_sp, us_space, us_sys):
    envmap = [_E[e] for e in envmap]
    system = grid_system(w, h, d, envmap, us_net, us_sp, us_space, us_sys)
    v_si = 8.0 * si_factor(SYS[us_space], UnitsDimensions(3, 0, 0))
    return default_ok(system, envmap, [v_si] * (w * h * d), us_sp)


def default_graph(envmap, us_net, us_sp, us_space, us_node, us_sys):
    envmap = [_E[e] for e in envmap]
    vols = [1.0, 8.0, 0.125, 27.0][:len(envmap)]
    system = graph_system(envmap, vols, us_net, us_sp, us_space, us_node, us_sys)
    f = si_factor(SYS[us_node], UnitsDimensions(3, 0, 0))
    if not default_ok(system, envmap, [v * f for v in vols], us_sp):
        return False
    # the same system built from DICTIONARIES (the way files are read): nodes / species without units of their own inherit the
    # enclosing object's; the system's own dictionary without state and chemostats regenerates both
    from strengths.rdsystem import rdsystem_to_dict, rdsystem_from_dict
    d = rdsystem_to_dict(system)
    d.pop("state", None)
    d.pop("chemostats", None)
    again = rdsystem_from_dict(d)
    if not default_ok(again, envmap, [v * f for v in vols], us_sp):
        return False
    # and from hand-written dictionaries with BARE numbers: node volumes in the space's units, one declaration at the space level
    fs = si_factor(SYS[us_space], UnitsDimensions(3, 0, 0))
    d2 = rdsystem_to_dict(system)
    d2.pop("state", None)
    d2.pop("chemostats", None)
    d2["space"] = {"type": "graph", "units": d["space"]["units"] if "units" in d["space"] else {"space": SYS[us_space]["space"], "time": SYS[us_space]["time"], "quantity": SYS[us_space]["quantity"]},
                   "nodes": [{"volume": v, "environment": _E[e]} for v, e in zip(vols, envmap)], "edges": [{"nodes": [i, i + 1]} for i in range(len(vols) - 1)]}
    third = rdsystem_from_dict(d2)
    return default_ok(third, envmap, [v * fs for v in vols], us_sp)


def index_formula(kind, s, x, y, z):
    if kind == "grid":
        system = grid_system(3, 2, 2, [0] * 12)
        size, w, h = 12, 3, 2
        cell = z * w * h + y * w + x
        forms = [cell, (x, y, z), Coord(x, y, z), [x, y, z], np.array([x, y, z]),
                 # positions INSIDE the cell (each coordinate is truncated on its own), in every coordinate form
                 (x + 0.5, y + 0.25, z + 0.75), [x + 0.75, y + 0.5, z + 0.25], np.array([x + 0.25, y + 0.75, z + 0.5]), Coord(x + 0.5, y + 0.5, z + 0.5)]
    else:
        system = graph_system([0, 1, 2, 0], [1.0, 8.0, 0.125, 27.0])
        size, cell = 4, x
        forms = [cell]
    lab = system.network.species[s].label
    for sp in (s, lab, system.network.species[s]):
        for pos in forms:
            if system.get_state_index(sp, pos) != s * size + cell:
                return False
    # ... and the per-entry getters / setters address the same entry through every form
    for pos in forms[1:]:
        system.set_state(s, pos, 41.5)
        if float(system.state.value[s * size + cell]) != 41.5 or float(system.get_state(s, pos).value) != 41.5:
            return False
        system.set_state(s, cell, 1.0)
        c0 = [int(c) for c in system.chemostats]
        new = 1 - c0[s * size + cell]
        system.set_chemostat(s, pos, new)
        c1 = [int(c) for c in system.chemostats]
        if c1[s * size + cell] != new or sum(1 for p_, q_ in zip(c0, c1) if p_ != q_) != 1 or int(system.get_chemostat(s, pos)) != new:
            return False
        system.set_chemostat(s, cell, c0[s * size + cell])
    return True


def accessors_touch_one_entry(kind, s, cell, us_val, us_net="A", us_sys="A"):
    """us_net / us_sys: units systems of the network (the default state is generated in it) and of the system (bare numbers are in it)"""
    system = grid_system(2, 2, 1, [0, 1, 2, 0], us_net=us_net, us_sys=us_sys) if kind == "grid" else graph_system([0, 1, 2, 0], [1.0, 8.0, 0.125, 27.0], us_net=us_net, us_sys=us_sys)
    n = 4
    before = [float(v) for v in system.state.value]
    cb = [int(c) for c in system.chemostats]
    k = s * n + cell
    val = UnitValue(7.25, Units(SYS[us_val], UnitsDimensions(0, 0, 1)))
    system.set_state(s, cell, val)
    after = [float(v) for v in system.state.value]
    want = si(val) / si_factor(system.state.units.sys, UnitsDimensions(0, 0, 1))
    for j in range(4 * n):
        if j == k:
            if abs(after[j] - want) > 1e-9 * abs(want):
                return False
        elif after[j] != before[j]:
            return False
    g = system.get_state(s, cell)
    if abs(si(g) - si(val)) > 1e-9 * abs(si(val)):
        return False
    system.set_state(system.network.species[s].label, cell, 3.5)      # bare number: the system's units
    if abs(si(system.get_state(s, cell)) - 3.5 * si_factor(system.units_system, UnitsDimensions(0, 0, 1))) > 1e-9 * 3.5 * si_factor(system.units_system, UnitsDimensions(0, 0, 1)):
        return False
    new = 1 - cb[k]
    system.set_chemostat(s, cell, new)
    ca = [int(c) for c in system.chemostats]
    return all((ca[j] == new) if j == k else (ca[j] == cb[j]) for j in range(4 * n)) and int(system.get_chemostat(s, cell)) == new


def regenerate_reflects_edit(s, envmap):
    envmap = [_E[e] for e in envmap]
    system = grid_system(2, 1, 1, envmap)
    system.network.species[s].density = 9.5
    system.network.species[s].chstt = {"e1": 1}
    system.set_default_state()
    system.set_default_chemostats()
    n = 2
    for i in range(n):
        if abs(float(system.state.value[s * n + i]) - 9.5 * 8.0) > 1e-9:
            return False
        if int(system.chemostats[s * n + i]) != (1 if ENVS[envmap[i]] == "e1" else 0):
            return False
    return True


def _edit(d, attr, how):
    new = (3.25 if attr == "density" else (not bool(d.get("default", False))))
    if how == 0:
        if "default" in d:
            d["default"] = new
    elif how == 1:
        if "default" in d:
            del d["default"]
        else:
            d["default"] = new
    else:
        own = [k for k in d if k != "default"]
        if own:
            del d[own[0]]


def regenerate_after_inplace_edit(s, envmap, how, graph):
    """The species' per-environment dictionaries are edited IN PLACE after the defaults were generated (an existing 'default'
    entry changed: how 0; a 'default' entry added or, where there is one, removed: how 1; an environment's own entry removed: how 2),
    then the defaults are regenerated: they must equal those of a system built from PRISTINE species objects (never used in a
    system) to which the same edit was applied - and generating the defaults must leave the dictionaries as they were written."""
    envmap3 = [_E[e] for e in envmap]
    vols = [8.0, 27.0, 1.0][:len(envmap3)]
    system = graph_system(envmap3, vols) if graph else grid_system(len(envmap3), 1, 1, envmap3)
    system.set_default_state()
    system.set_default_chemostats()
    pristine = network()
    for q, p in zip(system.network.species, pristine.species):
        for attr in ("density", "chstt"):
            a, b = getattr(q, attr), getattr(p, attr)
            if isinstance(b, dict) and sorted(a) != sorted(b):
                return False                    # generating the defaults wrote into the species' dictionary
    for attr in ("density", "chstt"):
        d = getattr(system.network.species[s], attr)
        if isinstance(d, dict):
            _edit(d, attr, how)
            _edit(getattr(pristine.species[s], attr), attr, how)
    system.set_default_state()
    system.set_default_chemostats()
    if graph:
        nodes = [N(volume=v, environment=e) for v, e in zip(vols, envmap3)]
        space2 = RDGraphSpace(nodes=nodes, edges=[E(i, i + 1) for i in range(len(nodes) - 1)])
    else:
        space2 = RDGridSpace(w=len(envmap3), h=1, d=1, cell_env=list(envmap3), cell_vol=8.0)
    fresh = RDSystem(pristine, space2)
    a = [float(v) for v in system.state.value]
    b = [float(v) for v in fresh.state.value]
    return all(abs(x - y) <= 1e-12 * max(abs(x), abs(y)) for x, y in zip(a, b)) and len(a) == len(b) and [int(c) for c in system.chemostats] == [int(c) for c in fresh.chemostats]


def writes_stay_in_one_system(kind, how, s, cell):
    """a per-entry write reaches exactly one entry of exactly ONE system: a second system that received the first one's state /
    chemostat arrays (through the constructor: how 0; through the setters: how 1; as numpy int / float arrays of the very dtype
    used internally: how 2; through copy(): how 3) owns its data - writing to either leaves the other untouched"""
    import numpy as _np
    a = grid_system(2, 2, 1, [0, 1, 2, 0]) if kind == 0 else graph_system([0, 1, 2, 0], [1.0, 8.0, 0.125, 27.0])
    if how == 0:
        b = RDSystem(a.network, a.space, state=a.state, chemostats=a.chemostats)
    elif how == 1:
        b = RDSystem(a.network, a.space)
        b.state = a.state
        b.chemostats = a.chemostats
    elif how == 2:
        b = RDSystem(a.network, a.space, state=UnitArray(_np.asarray(a.state.value, dtype=float), a.state.units), chemostats=_np.asarray(a.chemostats, dtype=_np.asarray(a.chemostats).dtype))
    else:
        b = a.copy()
    n = 4
    k = s * n + cell
    for w, o in ((b, a), (a, b)):
        st0, ch0 = [float(v) for v in o.state.value], [int(c) for c in o.chemostats]
        w.set_state(s, cell, float(w.state.value[k]) + 5.5)
        w.set_chemostat(s, cell, 1 - int(w.chemostats[k]))
        if [float(v) for v in o.state.value] != st0 or [int(c) for c in o.chemostats] != ch0:
            return False
    return True
