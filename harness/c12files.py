"""Static helpers of the C12 harness, file level: save_* / load_* round trips on the REAL file system (a throw-away directory
per evaluation), single-file and multi-file layouts, relative and absolute paths, both storage modes of trajectories."""
import json
import os
import shutil
import tempfile

import numpy as np

from harness.c12lib import *            # noqa: F401,F403  (builders, comparators)
from strengths import rdnetwork as _net, rdspace as _space, rdsystem as _sys, rdscript as _scr, rdoutput as _out
from strengths.rdoutput import RDTrajectory


class _Dir:
    """fresh directory, cwd inside it for the duration; always removed"""

    def __enter__(self):
        self.old = os.getcwd()
        self.path = tempfile.mkdtemp(prefix="c12f_", dir=os.environ.get("VERIF_SHARED_SCRATCH") or None)
        os.makedirs(os.path.join(self.path, "work"))
        os.makedirs(os.path.join(self.path, "work", "sub"))
        os.makedirs(os.path.join(self.path, "elsewhere"))
        os.chdir(os.path.join(self.path, "work"))
        return self

    def __exit__(self, *a):
        os.chdir(self.old)
        shutil.rmtree(self.path, ignore_errors=True)


def _path(d, form, name):
    """form 0: relative in cwd; 1: absolute; 2: relative in a sub-directory; 3: relative, and the file is LOADED from another cwd through its absolute path"""
    if form == 1:
        return os.path.join(d.path, "work", name)
    if form == 2:
        return os.path.join("sub", name)
    return name


def _load_from(d, form, path, loader):
    if form == 3:
        full = os.path.abspath(path)
        os.chdir(os.path.join(d.path, "elsewhere"))
        try:
            return loader(full)
        finally:
            os.chdir(os.path.join(d.path, "work"))
    return loader(path)


def mk_trajectory(f_units, f_space, cg):
    sc = mk_script(f_units, f_space, 0, 1, 5)
    n = len(sc.system.state)
    ns = 3
    data = UnitArray([0.5 * k + 0.25 * (k % 3) for k in range(ns * n)], Units(us(f_units + 1), UnitsDimensions(0, 0, 1)))
    t = UnitArray([0.0, 0.5, 2.0], Units(us(f_units + 1), UnitsDimensions(0, 1, 0)))
    # the trajectory's own system is NOT the script's (as after coarse-graining, or when the state was edited): other state, other chemostat map
    own = sc.system.copy()
    own.state = [2.0 * float(v) + 1.0 for v in sc.system.state.value]
    own.chemostats = [1 - int(c) for c in sc.system.chemostats]
    return RDTrajectory(data=data, t_sample=t, system=own, script=sc, engine_description="engine text", engine_option="euler",
                        cgmap=(list(range(sc.system.space.size())) if cg else None))


def same_trajectory(a, b):
    return (same_array(a.data, b.data) and same_array(a.t, b.t) and same_system(a.system, b.system) and same_script(a.script, b.script)
            and a.engine_description == b.engine_description and a.engine_option == b.engine_option
            and (list(a.cgmap) if a.cgmap is not None else None) == (list(b.cgmap) if b.cgmap is not None else None))


def file_rt(kind, f_units, f_space, form):
    """save to a file, load it back: same physical content, and saving the loaded object gives the same file content"""
    with _Dir() as d:
        if kind == "network":
            obj, save, load, same = mk_network(f_units, 1), _net.save_rdnetwork, _net.load_rdnetwork, same_network
        elif kind == "space":
            obj = mk_grid(f_units, 2, 1, 2, 0, 1, 0) if f_space % 2 == 0 else mk_graph(f_units, 1, 1)
            save, load, same = _space.save_rdspace, _space.load_rdspace, same_space
        elif kind == "system":
            obj, save, load, same = mk_system(f_units, f_space, 1), _sys.save_rdsystem, _sys.load_rdsystem, same_system
        elif kind == "script":
            obj, save, load, same = mk_script(f_units, f_space, 2, 3, 0), _scr.save_rdscript, _scr.load_rdscript, same_script
        else:
            raise ValueError(kind)
        p = _path(d, form, "obj.json")
        save(obj, p)
        if not os.path.isfile(p):
            return False
        back = _load_from(d, form, p, load)
        if not same(obj, back):
            return False
        p2 = _path(d, form, "again.json")
        save(back, p2)
        return json.load(open(p, encoding="utf-8")) == json.load(open(p2, encoding="utf-8"))


_NAMES = ["out", "run_001", "run_002", "o", "ab.json", "a.b", "traj.json.json", "json"]


def traj_rt(f_units, f_space, form, sep, iname, suffix, cg):
    """trajectory save/load, both storage modes: the '.json' suffix is added if absent, the data file is <name>_data.npy next to
    the JSON file, and the loaded trajectory has the same data, sample times, system, script, engine text and cgmap"""
    with _Dir() as d:
        tr = mk_trajectory(f_units, f_space, cg)
        name = _NAMES[iname] + (".json" if suffix else "")
        p = _path(d, form, name)
        before = set(os.listdir(os.path.dirname(os.path.abspath(p))))
        _out.save_rdtrajectory(tr, p, separate_data=bool(sep))
        jp = p if p.endswith(".json") else p + ".json"
        if not os.path.isfile(jp):
            return False
        new = set(os.listdir(os.path.dirname(os.path.abspath(jp)))) - before
        want = {os.path.basename(jp)} | ({os.path.basename(jp)[:-len(".json")] + "_data.npy"} if sep else set())
        if new != want:
            return False            # a file written somewhere else, under another name, or an extra file
        back = _load_from(d, form, jp, _out.load_rdtrajectory)
        return same_trajectory(tr, back)


def traj_no_collision(form, i1, i2, s1, s2):
    """two trajectories saved under different names in one directory do not disturb each other"""
    n1 = _NAMES[i1] + (".json" if s1 else "")
    n2 = _NAMES[i2] + (".json" if s2 else "")
    j1 = n1 if n1.endswith(".json") else n1 + ".json"
    j2 = n2 if n2.endswith(".json") else n2 + ".json"
    if j1 == j2:
        return True
    with _Dir() as d:
        t1, t2 = mk_trajectory(0, 0, 0), mk_trajectory(1, 1, 0)
        p1, p2 = _path(d, form, n1), _path(d, form, n2)
        _out.save_rdtrajectory(t1, p1)
        _out.save_rdtrajectory(t2, p2)
        b1 = _out.load_rdtrajectory(p1 if p1.endswith(".json") else p1 + ".json")
        b2 = _out.load_rdtrajectory(p2 if p2.endswith(".json") else p2 + ".json")
        return same_trajectory(t1, b1) and same_trajectory(t2, b2)


def multi_file(f_units, f_space, arr, form):
    """multi-file layout: a script file naming a system file, which names network and space files in a sub-directory and external
    array files (state as .npy, chemostats / cell environments as .npy or .txt); every relative path is relative to the file that
    names it, whatever the current directory at load time"""
    with _Dir() as d:
        sc = mk_script(f_units, f_space, 1, 2, 9)
        sy = sc.system
        _net.save_rdnetwork(sy.network, os.path.join("sub", "net.json"))
        sd = _space.rdspace_to_dict(sy.space)
        if "cell_env" in sd and arr:
            env = np.array(sd["cell_env"], dtype=int)
            if arr == 1:
                np.save(os.path.join("sub", "env.npy"), env)
                sd["cell_env"] = "env.npy"                       # relative to the space file (in sub/)
            else:
                from strengths import text_array_rw
                text_array_rw.save_1D_array_txt(list(env), os.path.join("sub", "env.txt"))
                sd["cell_env"] = "env.txt"
        json.dump(sd, open(os.path.join("sub", "space.json"), "w", encoding="utf-8"))
        syd = _sys.rdsystem_to_dict(sy)
        syd["network"] = os.path.join("sub", "net.json")
        syd["space"] = os.path.join("sub", "space.json")
        np.save("state.npy", np.array(sy.state.value, dtype=float))
        syd["state"] = {"value": "state.npy", "units": str(sy.state.units)}
        if arr == 1:
            np.save("chem.npy", np.array(sy.chemostats, dtype=int))
            syd["chemostats"] = "chem.npy"
        elif arr == 2:
            from strengths import text_array_rw
            text_array_rw.save_1D_array_txt([int(c) for c in sy.chemostats], "chem.txt")
            syd["chemostats"] = "chem.txt"
        json.dump(syd, open("system.json", "w", encoding="utf-8"))
        scd = _scr.rdscript_to_dict(sc)
        scd["system"] = "system.json" if form != 1 else os.path.abspath("system.json")
        json.dump(scd, open("script.json", "w", encoding="utf-8"))
        if form in (2, 3):
            # ANOTHER model lives in the directory the loader is run from, under the same relative names (network, space, arrays):
            # a relative reference is relative to the file that names it, never to the current directory
            other = mk_script((f_units + 2) % 5, f_space, 2, 1, 4)
            od = os.path.join(d.path, "elsewhere")
            os.makedirs(os.path.join(od, "sub"), exist_ok=True)
            _net.save_rdnetwork(other.system.network, os.path.join(od, "sub", "net.json"))
            _space.save_rdspace(other.system.space, os.path.join(od, "sub", "space.json"))
            _sys.save_rdsystem(other.system, os.path.join(od, "system.json"))
            np.save(os.path.join(od, "state.npy"), np.array(other.system.state.value, dtype=float) + 77.0)
            np.save(os.path.join(od, "chem.npy"), 1 - np.array(other.system.chemostats, dtype=int))
            np.save(os.path.join(od, "sub", "env.npy"), np.zeros(len(other.system.chemostats), dtype=int)[:other.system.space.size()])
            from strengths import text_array_rw as _t
            _t.save_1D_array_txt([1 - int(c) for c in other.system.chemostats], os.path.join(od, "chem.txt"))
            _t.save_1D_array_txt([0] * other.system.space.size(), os.path.join(od, "sub", "env.txt"))
        back = _load_from(d, 3 if form in (2, 3) else form, "script.json", _scr.load_rdscript)
        return same_script(sc, back)
