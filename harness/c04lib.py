"""Static helpers of the C04 harness: physical results do not depend on the units used to state or report them."""
import ctypes
import numpy as np
from strengths import *
from strengths.units import UnitValue, UnitArray, Units, UnitsSystem, UnitsDimensions, unitssystem_to_dict
from strengths.rdgraphspace import RDGraphSpaceNode as N, RDGraphSpaceEdge as E
from strengths.rdnetwork import rdnetwork_from_dict
from strengths.rdsystem import rdsystem_from_dict
from strengths.rdscript import RDScript, rdscript_from_dict
from strengths.librdengine import LibRDEngine
from harness.c05lib import SYS, si, si_factor, raises
from vt.glue import RecLib, GRID_NAMES, GRAPH_NAMES

KEYS = "ABCDEFGHIJK"


def F(us, dim):
    return si_factor(SYS[us], UnitsDimensions(*dim))


def close(a, b):
    return abs(a - b) <= 1e-9 * max(abs(a), abs(b)) + 1e-300


# ---- (1) a bare number takes the units of the level at which it is written ---------------------------------------------
def field_si(kind, a, us):
    """SI value of the quantity stored when the bare number a is given for `kind` under units system us"""
    u = SYS[us]
    if kind == "density":
        return si(Species("A", density=a, units_system=u).density), (-3, 0, 1)
    if kind == "density_env":
        return si(Species("A", density={"e0": a, "default": 0}, units_system=u).density["e0"]), (-3, 0, 1)
    if kind == "D":
        return si(Species("A", D=a, units_system=u).D), (2, -1, 0)
    if kind.startswith("kf"):
        n = int(kind[2:])
        return si(Reaction([{"A": n}, {"B": 1}], kf=a, units_system=u).kf), (3 * n - 3, -1, 1 - n)
    if kind.startswith("kr"):
        n = int(kind[2:])
        return si(Reaction([{"B": 1}, {"A": n}], kr=a, units_system=u).kr), (3 * n - 3, -1, 1 - n)
    if kind == "cell_vol":
        return si(RDGridSpace(cell_vol=a, units_system=u).cell_vol), (3, 0, 0)
    if kind == "node_volume":
        return si(N(volume=a, units_system=u).volume), (3, 0, 0)
    if kind == "edge_surface":
        return si(E(0, 1, surface=a, units_system=u).surface), (2, 0, 0)
    if kind == "edge_distance":
        return si(E(0, 1, distance=a, units_system=u).distance), (1, 0, 0)
    raise ValueError(kind)


def bare_number_scaling(kind, a, us1, us2):
    """the same physical quantity written as bare a under U1 and as bare a*f under U2 (f = U1->U2 factor) is stored with the same SI value"""
    v1, dim = field_si(kind, a, us1)
    f = F(us1, dim) / F(us2, dim)
    v2, _ = field_si(kind, a * f, us2)
    return close(v1, a * F(us1, dim)) and close(v2, v1)


_SYS0 = None


def base_system():
    global _SYS0
    if _SYS0 is None:
        net = RDNetwork(species=[Species("A", D=1.5, density=2.0), Species("B", D=0.5)], reactions=[Reaction("A -> B", kf=1.25, kr=0.5)])
        _SYS0 = RDSystem(net, RDGridSpace(w=2, h=1, d=1, cell_vol=8.0))
    return _SYS0


def script_field_si(kind, a, us):
    s = RDScript(base_system(), [0.0, a] if kind == "t_sample" else [0.0, 1.0], units_system=SYS[us], **({kind: a} if kind != "t_sample" else {}))
    q = {"time_step": s.time_step, "t_max": s.t_max, "sampling_interval": s.sampling_interval}.get(kind)
    if kind == "t_sample":
        q = s.t_sample.get_at(1)
    return si(q)


def script_bare_scaling(kind, a, us1, us2):
    v1 = script_field_si(kind, a, us1)
    f = F(us1, (0, 1, 0)) / F(us2, (0, 1, 0))
    v2 = script_field_si(kind, a * f, us2)
    return close(v1, a * F(us1, (0, 1, 0))) and close(v2, v1)


def state_bare_scaling(a, us1, us2):
    net = base_system().network
    def st(x, us):
        s = RDSystem(net, RDGridSpace(w=2, h=1, d=1, cell_vol=8.0), state=[x, 1.0, 2.0, 3.0], units_system=SYS[us])
        return si(s.state.get_at(0))
    f = F(us1, (0, 0, 1)) / F(us2, (0, 0, 1))
    return close(st(a, us1), a * F(us1, (0, 0, 1))) and close(st(a * f, us2), st(a, us1))


# ---- (2)/(3) nesting levels, inheritance, explicit units ------------------------------------------------------------------
VAL = {"density": 2.5, "D": 1.5, "kf": 0.75, "kr": 0.25, "vol": 8.0, "state": [3.0, 1.0, 4.0, 1.5], "dt": 0.125, "ts": [0.0, 2.0], "tmax": 1.5, "itv": 0.5}


FOREIGN = "G"      # explicit quantities of mode 2 are written in this system (m, ms, mol) whatever surrounds them


def script_dict(level_units, explicit=False, graph=False, keywords=False, default_state=False):
    """One physical system (all magnitudes given in SI-coherent 'm, s, mol' numbers VALSI) described with the units
    system U declared at `level` and bare numbers re-scaled to U; other levels inherit. level_units: dict level -> key."""
    def u(level):
        return level_units.get(level)

    def eff(chain):
        for lv in chain:
            if u(lv):
                return u(lv)
        return "A"       # the package default (µm, s, molecule)

    def num(x_si, dim, chain, expl=False):
        us = eff(chain) if expl != 2 else FOREIGN
        v = x_si / F(us, dim)
        if expl:
            txt = str(Units(SYS[us], UnitsDimensions(*dim)))
            return ("%r %s" % (v, txt)) if txt else v
        return v

    def decl(level):
        if keywords:
            # the string keywords: "default" names the package default system (whatever encloses the object), "inherit" the enclosing one
            if u(level) == "A":
                return {"units": "default"}
            if not u(level) and level != "script":
                return {"units": "inherit"}
        return {"units": unitssystem_to_dict(SYS[u(level)])} if u(level) else {}
    SI = {"density": 3.0e20, "D": 2.0e-12, "kf": 0.75, "kr": 4.0e-22, "vol": 8.0e-18, "state": [3.0e-21, 1.0e-21, 4.0e-21, 1.5e-21], "dt": 0.125, "ts": [0.0, 2.0], "tmax": 1.5, "itv": 0.5}
    sp_chain, re_chain = ["species", "network", "system", "script"], ["reaction", "network", "system", "script"]
    spc_chain, sys_chain = ["space", "system", "script"], ["system", "script"]
    species = [dict({"label": "A", "density": num(SI["density"], (-3, 0, 1), sp_chain, explicit), "D": num(SI["D"], (2, -1, 0), sp_chain, explicit)}, **decl("species")),
               dict({"label": "B", "D": num(SI["D"] / 2, (2, -1, 0), ["network", "system", "script"], explicit)})]
    reactions = [dict({"eq": "A + B -> B", "k+": num(SI["kr"], (3, -1, -1), re_chain, explicit), "k-": 0}, **decl("reaction")),
                 dict({"eq": "A -> B", "k+": num(SI["kf"], (0, -1, 0), ["network", "system", "script"], explicit)})]
    network = dict({"species": species, "reactions": reactions}, **decl("network"))
    if graph:
        h = SI["vol"] ** (1.0 / 3.0)
        space = dict({"type": "graph", "nodes": [{"volume": num(SI["vol"], (3, 0, 0), spc_chain, explicit), "environment": 0} for _ in range(2)],
                      "edges": [{"nodes": [0, 1], "surface": num(h * h, (2, 0, 0), spc_chain, explicit), "distance": num(h, (1, 0, 0), spc_chain, explicit)}]}, **decl("space"))
    else:
        space = dict({"type": "grid", "w": 2, "h": 1, "d": 1, "cell_volume": num(SI["vol"], (3, 0, 0), spc_chain, explicit)}, **decl("space"))
    us_state = eff(sys_chain)
    system = dict({"network": network, "space": space,
                   "state": {"value": [x / F(us_state, (0, 0, 1)) for x in SI["state"]], "units": str(Units(SYS[us_state], UnitsDimensions(0, 0, 1)))}}, **decl("system"))
    if default_state:
        del system["state"]          # the state is then generated: density in the cell's environment x cell volume
    us_s = eff(["script"])
    d = dict({"system": system, "t_sample": [t / F(us_s, (0, 1, 0)) for t in SI["ts"]], "dt": num(SI["dt"], (0, 1, 0), ["script"], explicit),
              "t_max": num(SI["tmax"], (0, 1, 0), ["script"], explicit), "sampling_interval": num(SI["itv"], (0, 1, 0), ["script"], explicit)}, **decl("script"))
    return d, SI


def physical_content(script):
    """SI values of every dimensioned field of a script"""
    s = script.system
    sp, re = s.network.species, s.network.reactions
    return {"density": si(sp[0].density), "D_A": si(sp[0].D), "D_B": si(sp[1].D), "k0": si(re[0].kf), "k1": si(re[1].kf), "vol": si(s.space.get_cell_vol(0)),
            "state": [si(s.state.get_at(i)) for i in range(4)], "dt": si(script.time_step), "ts": [si(script.t_sample.get_at(i)) for i in range(2)],
            "tmax": si(script.t_max), "itv": si(script.sampling_interval)}


def same_content(a, b):
    for k in a:
        x, y = a[k], b[k]
        if isinstance(x, list):
            if not all(close(p, q) for p, q in zip(x, y)):
                return False
        elif not close(x, y):
            return False
    return True


LEVELS = ["script", "system", "network", "space", "species", "reaction"]


def nesting_invariance(lv1, u1, lv2, u2, explicit, graph=0):
    """declaring units system U at ANY level (others inheriting) with bare numbers re-scaled, or writing explicit unit
    strings, describes the same physical script"""
    d0, SI = script_dict({}, False, bool(graph))
    ref = physical_content(rdscript_from_dict(d0))
    lu = {LEVELS[lv1 % 6]: KEYS[u1 % 11]}
    lu[LEVELS[lv2 % 6]] = KEYS[u2 % 11]
    d1, _ = script_dict(lu, explicit, bool(graph))
    got = physical_content(rdscript_from_dict(d1))
    want = {"density": SI["density"], "D_A": SI["D"], "D_B": SI["D"] / 2, "k0": SI["kr"], "k1": SI["kf"], "vol": SI["vol"], "state": SI["state"], "dt": SI["dt"], "ts": SI["ts"],
            "tmax": SI["tmax"], "itv": SI["itv"]}
    return same_content(got, want) and same_content(ref, want)


def default_state_invariance(lv1, u1, lv2, u2, graph=0):
    """the GENERATED initial state (no explicit state: density x cell volume) is the same physical amount whatever level declares
    which units - in particular when only the space, or only the network, declares its own"""
    lu = {LEVELS[lv1 % 6]: KEYS[u1 % 11]}
    lu[LEVELS[lv2 % 6]] = KEYS[u2 % 11]
    d1, SI = script_dict(lu, False, bool(graph), default_state=True)
    sc = rdscript_from_dict(d1)
    st = sc.system.state
    want = [SI["density"] * SI["vol"]] * 2 + [0.0, 0.0]
    got = [si(st.get_at(i)) for i in range(4)]
    return all(close(a, b) for a, b in zip(got, want))


def keyword_invariance(lv1, u1, lv2, graph=0):
    """the same with the string keywords: level lv2 declares "units": "default" (the package default system, even when an enclosing
    level declares something else), level lv1 declares system u1, every other nested level says "units": "inherit" explicitly"""
    d0, SI = script_dict({}, False, bool(graph))
    lu = {LEVELS[lv1 % 6]: KEYS[u1 % 11]}
    lu[LEVELS[lv2 % 6]] = "A"
    d1, _ = script_dict(lu, False, bool(graph), keywords=True)
    got = physical_content(rdscript_from_dict(d1))
    want = {"density": SI["density"], "D_A": SI["D"], "D_B": SI["D"] / 2, "k0": SI["kr"], "k1": SI["kf"], "vol": SI["vol"], "state": SI["state"], "dt": SI["dt"], "ts": SI["ts"],
            "tmax": SI["tmax"], "itv": SI["itv"]}
    return same_content(got, want)


# ---- (4) what reaches the engine, re-expressed in SI, does not depend on the description; outputs are scaled back ----------
DIMS_ABI = {"state": (0, 0, 1), "vol": (3, 0, 0), "D": (2, -1, 0), "t_sample": (0, 1, 0), "interval": (0, 1, 0), "t_max": (0, 1, 0), "dt": (0, 1, 0),
            "edge_sfc": (2, 0, 0), "edge_dst": (1, 0, 0)}


def abi_in_si(script, option, engine_us_key):
    lib = RecLib()
    e = LibRDEngine(lib, option=option, requires_molecules=option in ("gillespie", "tauleap"))
    e.setup(script)
    name, vals = [c for c in lib.log if c[0].startswith("engineexport_initialize")][0]
    named = dict(zip(GRID_NAMES if name.endswith("grid") else GRAPH_NAMES, vals))
    eng = UnitsSystem(space=SYS[engine_us_key]["space"], time=SYS[engine_us_key]["time"], quantity="molecule" if option in ("gillespie", "tauleap") else SYS[engine_us_key]["quantity"])
    out = {}
    for k, dim in DIMS_ABI.items():
        if k not in named:
            continue
        f = si_factor(eng, UnitsDimensions(*dim))
        v = named[k]
        out[k] = [x * f for x in v] if isinstance(v, list) else v * f
    # rate constants: [env][reaction] with reactions (f0, r0, f1, r1): orders 2, 1(reverse of A+B->B is B -> A+B: order 1), 1, 1
    kdims = [(3, -1, -1), (0, -1, 0), (0, -1, 0), (0, -1, 0)]
    out["k"] = [x * si_factor(eng, UnitsDimensions(*kdims[j % 4])) for j, x in enumerate(named["k"])]
    out["ints"] = [named.get(k) for k in ("w", "h", "d", "n_nodes", "n_edges", "edge_i", "edge_j", "n_species", "n_reactions", "n_env", "chstt", "env", "sub", "sto", "seed")]
    return out


def abi_invariance(lv, u, eu, option_k, explicit, graph=0):
    """two descriptions of the same physical script, simulated with output units E: the arrays handed to the engine agree in SI"""
    option = ["euler", "tauleap", "gillespie"][option_k % 3]
    ek = KEYS[eu % 11]
    d0, _ = script_dict({"script": ek}, False, bool(graph))
    d1, _ = script_dict({"script": ek, LEVELS[1 + lv % 5]: KEYS[u % 11]}, explicit, bool(graph))
    d0["seed"] = d1["seed"] = 5
    a = abi_in_si(rdscript_from_dict(d0), option, ek)
    b = abi_in_si(rdscript_from_dict(d1), option, ek)
    if a["ints"] != b["ints"]:
        return False
    for k in a:
        if k == "ints":
            continue
        x, y = a[k], b[k]
        if isinstance(x, list):
            if len(x) != len(y) or not all(close(p, q) for p, q in zip(x, y)):
                return False
        elif not close(x, y):
            return False
    # and they are the physical values themselves
    want = physical_content(rdscript_from_dict(d0))
    vol0 = a["vol"][0] if isinstance(a["vol"], list) else a["vol"]
    return all(close(p, q) for p, q in zip(a["state"], want["state"])) and close(vol0, want["vol"]) and close(a["dt"], want["dt"]) and close(a["t_max"], want["tmax"]) and close(a["interval"], want["itv"]) \
        and all(close(p, q) for p, q in zip(a["t_sample"], want["ts"])) and close(a["D"][0], want["D_A"]) and close(a["k"][0], want["k0"]) and close(a["k"][2], want["k1"])


class OutLib(RecLib):
    """stand-in library whose output calls fill the caller's buffers with known numbers"""

    def __init__(self, nsamp, n):
        RecLib.__init__(self)
        self.nsamp, self.n = nsamp, n
        self.engineexport_get_nsamples = lambda: self.nsamp
        self.engineexport_get_trajectory = self._traj
        self.engineexport_get_tsample = self._ts

    def _traj(self, buf):
        for i in range(self.nsamp * self.n):
            buf[i] = 10.0 + i
        return 0

    def _ts(self, buf):
        for i in range(self.nsamp):
            buf[i] = 0.5 * i
        return 0


def output_scaling(eu, option_k):
    """the numbers the engine returns are in the engine's units; the trajectory reports them in the script's units: same SI value"""
    option = ["euler", "tauleap", "gillespie"][option_k % 3]
    ek = KEYS[eu % 11]
    d0, _ = script_dict({"script": ek})
    script = rdscript_from_dict(d0)
    lib = OutLib(2, 4)
    e = LibRDEngine(lib, option=option, requires_molecules=option in ("gillespie", "tauleap"))
    e.setup(script)
    o = e.get_output()
    eng_q = "molecule" if option in ("gillespie", "tauleap") else SYS[ek]["quantity"]
    fq = si_factor(UnitsSystem(quantity=eng_q), UnitsDimensions(0, 0, 1))
    ft = F(ek, (0, 1, 0))
    ok = len(o.data) == 8 and len(o.t) == 2 and o.data.units.sys == SYS[ek] and o.t.units.sys == SYS[ek]
    for i in range(8):
        ok = ok and close(si(o.data.get_at(i)), (10.0 + i) * fq)
    for i in range(2):
        ok = ok and close(si(o.t.get_at(i)), 0.5 * i * ft)
    return ok


def mixed_array(u1, u2, u3):
    """one array built from quantities written in DIFFERENT unit systems (and a bare number): every element keeps its physical value"""
    k1, k2, k3 = KEYS[u1 % 11], KEYS[u2 % 11], KEYS[u3 % 11]
    dim = (3, 0, 0)
    tgt = Units(SYS[k3], UnitsDimensions(*dim))
    vals = [UnitValue(2.0, Units(SYS[k1], UnitsDimensions(*dim))), UnitValue(3.0, Units(SYS[k2], UnitsDimensions(*dim))), 5.0,
            str(UnitValue(7.0, Units(SYS[k2], UnitsDimensions(*dim)))), UnitValue(11.0, Units(SYS[k1], UnitsDimensions(*dim)))]
    arr = UnitArray(list(vals), tgt)
    want = [2.0 * F(k1, dim), 3.0 * F(k2, dim), 5.0 * F(k3, dim), 7.0 * F(k2, dim), 11.0 * F(k1, dim)]
    ok = all(close(si(arr.get_at(i)), want[i]) for i in range(5))
    # the same list through the value setter and through set_value with its default arguments
    arr2 = UnitArray([0.0] * 5, tgt)
    arr2.value = list(vals)
    arr3 = UnitArray([0.0] * 5, tgt)
    arr3.set_value(list(vals))
    ok = ok and all(close(si(arr2.get_at(i)), want[i]) and close(si(arr3.get_at(i)), want[i]) for i in range(5))
    # the same through a graph whose nodes carry their own units, and through sample times given as quantities
    g = RDGraphSpace(nodes=[N(2.0, 0, SYS[k1]), N(3.0, 0, SYS[k2]), N("7 %s" % str(Units(SYS[k2], UnitsDimensions(*dim))), 0, SYS[k3]), N(5.0, 0, SYS[k3])],
                     edges=[E(0, 1, 2.0, 3.0, SYS[k1]), E(1, 2, 5.0, 7.0, SYS[k2])], units_system=SYS[k3])
    va = g.get_cell_vol_array()
    ok = ok and all(close(si(va.get_at(i)), w) for i, w in enumerate([2.0 * F(k1, dim), 3.0 * F(k2, dim), 7.0 * F(k2, dim), 5.0 * F(k3, dim)]))
    ts = RDScript(base_system(), [UnitValue(0.0, "s"), UnitValue(2.0, Units(SYS[k1], UnitsDimensions(0, 1, 0))), UnitValue(3.0e3, Units(SYS[k2], UnitsDimensions(0, 1, 0)))], units_system=SYS[k3]).t_sample
    ok = ok and close(si(ts.get_at(1)), 2.0 * F(k1, (0, 1, 0))) and close(si(ts.get_at(2)), 3.0e3 * F(k2, (0, 1, 0)))
    return ok


def default_tmax(u1, u3, form, g=0):
    """t_max left at its default is the LAST sample time as a physical quantity, whatever units the sample times were written in
    (list of quantities, quantity array with its own units, {"value", "units"} dictionary), in the script, in its dictionary
    and in what reaches the engine"""
    from strengths.rdscript import rdscript_to_dict, rdscript_from_dict
    from strengths.rdsystem import rdsystem_to_dict
    k1, k3 = KEYS[u1 % 11], KEYS[u3 % 11]
    if g:
        from harness.c12lib import mk_system
        _bs = mk_system(0, 1, 0)             # a graph space: the other set-up routine of the wrapper
    else:
        _bs = base_system()
    tu = Units(SYS[k1], UnitsDimensions(0, 1, 0))
    last_si = 3.0 * F(k1, (0, 1, 0))
    step = UnitValue(0.25 * last_si, "s")          # a time step that is explicit too, so that only t_sample / t_max vary
    if form == 0:
        sc = RDScript(_bs, [UnitValue(0.0, tu), UnitValue(1.5, tu), UnitValue(3.0, tu)], time_step=step, units_system=SYS[k3])
    elif form == 1:
        sc = RDScript(_bs, UnitArray([0.0, 1.5, 3.0], tu), time_step=step, units_system=SYS[k3])
    else:
        sc = rdscript_from_dict({"system": rdsystem_to_dict(_bs), "t_sample": {"value": [0.0, 1.5, 3.0], "units": str(tu)}, "time_step": str(step),
                                 "units": {"space": SYS[k3]["space"], "time": SYS[k3]["time"], "quantity": SYS[k3]["quantity"]}})
    if not close(si(sc.t_max), last_si):
        return False
    back = rdscript_from_dict(rdscript_to_dict(sc))
    if not close(si(back.t_max), last_si):
        return False
    a = abi_in_si(sc, "euler", k3)
    return close(a["t_max"], last_si) and close(a["t_sample"][-1], last_si)


def kinetics_mixed_units(u1, u2, g):
    """per-environment dictionaries whose entries are written in DIFFERENT units (D, densities, rate constants): the Python rate of
    change, in SI, is that of the same model written in bare default-unit numbers (neighbouring cells in the two environments)"""
    from strengths import kinetics
    k1, k2 = KEYS[u1 % 11], KEYS[u2 % 11]

    def q(x, key, dim):       # the default-units number x as text in system `key`
        return "%r %s" % (x * F("A", dim) / F(key, dim), str(Units(SYS[key], UnitsDimensions(*dim))))
    Dd, kd = (2, -1, 0), (0, -1, 0)
    def build(explicit):
        DA = {"e0": q(1.5, k1, Dd), "e1": q(4.0, k2, Dd)} if explicit else {"e0": 1.5, "e1": 4.0}
        DB = {"e0": q(0.5, k2, Dd), "e1": 2.5} if explicit else {"e0": 0.5, "e1": 2.5}
        kf = {"e0": q(1.25, k1, kd), "e1": q(0.25, k2, kd)} if explicit else {"e0": 1.25, "e1": 0.25}
        net = RDNetwork(species=[Species("A", D=DA, density=2.0), Species("B", D=DB, density={"e0": 1.0, "e1": 3.0})], reactions=[Reaction("A -> B", kf=kf, kr=0.5)], environments=["e0", "e1"])
        if g:
            sp = RDGraphSpace(nodes=[N(8.0, 0), N(27.0, 1), N(1.0, 0)], edges=[E(0, 1, 4.0, 2.5), E(2, 1, 1.0, 2.0)])
        else:
            sp = RDGridSpace(w=3, h=1, d=1, cell_env=[0, 1, 1], cell_vol=8.0)
        return RDSystem(net, sp)
    a = [si(v) for v in (kinetics.compute_dstatedt(build(False)).get_at(i) for i in range(6))]
    b = [si(v) for v in (kinetics.compute_dstatedt(build(True)).get_at(i) for i in range(6))]
    return all(close(x, y) for x, y in zip(a, b))


def abi_k_mixed(u1, u2, opt, g):
    """rate constants and diffusion coefficients whose per-environment entries are written in DIFFERENT units reach the native engine
    as the same numbers as the model written in bare default-unit numbers (every environment / reaction entry of the k and D vectors)"""
    k1, k2 = KEYS[u1 % 11], KEYS[u2 % 11]
    option = ["euler", "tauleap", "gillespie"][opt % 3]

    def q(x, key, dim):
        return "%r %s" % (x * F("A", dim) / F(key, dim), str(Units(SYS[key], UnitsDimensions(*dim))))
    Dd, k1d, k2d = (2, -1, 0), (0, -1, 0), (3, -1, -1)

    def build(explicit):
        DA = {"e0": q(1.5, k1, Dd), "e1": q(4.0, k2, Dd), "e2": 0.75} if explicit else {"e0": 1.5, "e1": 4.0, "e2": 0.75}
        kf = {"e0": q(1.25, k1, k1d), "e1": q(0.25, k2, k1d), "e2": 3.0} if explicit else {"e0": 1.25, "e1": 0.25, "e2": 3.0}
        kb = {"e0": 2.0, "e1": q(0.5, k2, k2d), "e2": q(0.125, k1, k2d)} if explicit else {"e0": 2.0, "e1": 0.5, "e2": 0.125}
        net = RDNetwork(species=[Species("A", D=DA, density=2.0), Species("B", D=0.5, density=1.0)],
                        reactions=[Reaction("A -> B", kf=kf, kr=0.5), Reaction("A + B -> A", kf=kb)], environments=["e0", "e1", "e2"])
        if g:
            sp = RDGraphSpace(nodes=[N(8.0, 0), N(27.0, 1), N(1.0, 2)], edges=[E(0, 1, 4.0, 2.5), E(2, 1, 1.0, 2.0)])
        else:
            sp = RDGridSpace(w=3, h=1, d=1, cell_env=[0, 1, 2], cell_vol=8.0)
        return RDScript(RDSystem(net, sp), [0, 1.0])
    a, b = abi_in_si_raw(build(False), option), abi_in_si_raw(build(True), option)
    return all(close(x, y) for x, y in zip(a["k"], b["k"])) and all(close(x, y) for x, y in zip(a["D"], b["D"])) and len(a["k"]) == len(b["k"]) == 12


def abi_in_si_raw(script, option):
    lib = RecLib()
    e = LibRDEngine(lib, option=option, requires_molecules=option in ("gillespie", "tauleap"))
    e.setup(script)
    name, vals = [c for c in lib.log if c[0].startswith("engineexport_initialize")][0]
    return dict(zip(GRID_NAMES if name.endswith("grid") else GRAPH_NAMES, vals))


def explicit_volume_strings(k, where):
    """a bare number replaced by an explicit unit STRING keeps the physical value, for every symbol of the litre family (and the molar
    family in densities): a cell / node volume written '1 <symbol>' is that many cubic metres (SI definitions written here, not taken
    from the module), and equals the same volume written as a bare number of µm3"""
    from harness.c06lib import derived_spec, AVOGADRO
    lit, mol = derived_spec()
    names = sorted(lit) + sorted(mol)
    if k >= len(names):
        return True
    sym = names[k]
    if sym in lit:
        want = lit[sym]                                   # m3
        if where == 0:
            g = RDGridSpace(w=2, cell_vol="1 %s" % sym)
            got = si(g.cell_vol)
            bare = RDGridSpace(w=2, cell_vol=want / 1e-18)    # the same volume as a bare number in the default system (µm3)
            return close(got, want) and close(si(bare.cell_vol), want) and close(si(g.get_cell_vol_array().get_at(1)), want)
        g = RDGraphSpace(nodes=[N("1 %s" % sym, 0), N(want / 1e-18, 0)], edges=[E(0, 1)])
        va = g.get_cell_vol_array()
        return close(si(va.get_at(0)), want) and close(si(va.get_at(1)), want)
    want = mol[sym]                                       # molecules per m3
    sp = Species("A", density="1 %s" % sym)
    s = RDSystem(RDNetwork(species=[sp], reactions=[]), RDGridSpace(w=1, cell_vol="1 fL"))
    return close(si(sp.density), want) and close(si(s.state.get_at(0)), want * 1e-18)
