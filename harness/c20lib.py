"""Static helpers of the C20 harness: invalid input is rejected, never silently accepted."""
import numpy as np
from strengths import *
from strengths.units import UnitValue, UnitArray, Units, UnitsSystem, UnitsDimensions, unitssystem_from_dict, unitarray_from_dict, _units_labels_dict
from strengths.rdnetwork import species_from_dict, species_to_dict, reaction_from_dict, reaction_to_dict, rdnetwork_from_dict, rdnetwork_to_dict
from strengths.rdgraphspace import (RDGraphSpaceNode, RDGraphSpaceEdge, rdgraphspacenode_from_dict, rdgraphspaceedge_from_dict, rdgraphspace_from_dict, rdgraphspace_to_dict,
                                    rdgraphspacenode_to_dict, rdgraphspaceedge_to_dict)
from strengths.rdgridspace import rdgridspace_from_dict, rdgridspace_to_dict
from strengths.rdsystem import rdsystem_from_dict, rdsystem_to_dict
from strengths.rdscript import RDScript, rdscript_from_dict, rdscript_to_dict
from strengths.coarsegrain import coarsegrain_system
from strengths import kinetics
from harness.c05lib import SYS, raises
from harness.c12lib import mk_species, mk_reaction, mk_network, mk_grid, mk_graph, mk_system, mk_script
from harness.c15lib import Coord

_R = list(range(16))


def readers():
    sysm = mk_system(0, 0, 0)
    g = mk_graph(0, 0, 0)
    return [
        ("species", species_from_dict, species_to_dict(mk_species(0, 1, 1, 1)), ["label", "l", "D", "diff_coef", "diffusion_coefficient", "diff coef", "diffusion coefficient", "density", "concentration", "dens", "conc", "C", "chstt", "chemostat", "units", "units_system", "units system", "u"]),
        ("reaction", reaction_from_dict, reaction_to_dict(mk_reaction(0, 1, 4, 1)), ["stoichiometry", "eq", "sto", "equation", "label", "l", "k+", "kf", "k-", "kr", "units", "units_system", "units system", "u"]),
        ("network", rdnetwork_from_dict, rdnetwork_to_dict(mk_network(0, 0)), ["species", "reactions", "environments", "env", "units", "units_system", "units system", "u"]),
        ("grid", rdgridspace_from_dict, rdgridspace_to_dict(mk_grid(0, 2, 1, 1, 0, 0, 0)), ["type", "w", "width", "h", "height", "d", "depth", "cell_env", "cell_environments", "cell environments", "environments", "env", "cell_volume", "cell_vol", "boundary_conditions", "units", "units_system", "units system", "u"]),
        ("node", rdgraphspacenode_from_dict, rdgraphspacenode_to_dict(g.nodes[0], g.units_system), ["volume", "vol", "environment", "env", "units", "units_system", "units system", "u"]),
        ("edge", rdgraphspaceedge_from_dict, rdgraphspaceedge_to_dict(g.edges[0], g.units_system), ["nodes", "surface", "distance", "units", "units_system", "units system", "u"]),
        ("graph", rdgraphspace_from_dict, rdgraphspace_to_dict(g), ["type", "nodes", "edges", "units", "units_system", "units system", "u"]),
        ("system", rdsystem_from_dict, rdsystem_to_dict(sysm), ["network", "rdnetwork", "space", "rdspace", "state", "chemostats", "units", "units_system", "units system", "u"]),
        ("script", rdscript_from_dict, rdscript_to_dict(mk_script(0, 0, 0, 0, 1)), ["system", "t_sample", "time_step", "time step", "dt", "t_max", "tmax", "sampling_policy", "sampling policy", "sampling_interval", "sampling interval", "rng_seed", "rng seed", "seed", "init_state_processing", "init state processing", "units", "units_system", "units system", "u"]),
        ("unitssystem", unitssystem_from_dict, {"space": "µm", "time": "s", "quantity": "molecule"}, ["space", "time", "quantity"]),
        ("unitarray", unitarray_from_dict, {"value": [1.0, 2.0], "units": "µm"}, ["value", "units"]),
    ]


_READERS = None


def reader(k):
    global _READERS
    if _READERS is None:
        _READERS = readers()
    return _READERS[_R[k]]


def unknown_key_rejected(k, key):
    name, from_d, base, accepted = reader(k)
    if key in accepted:
        return True
    d = dict(base)
    d[key] = 1
    return raises(lambda: from_d(d))


MANDATORY = {"species": ["label"], "reaction": ["stoichiometry"], "network": ["species", "reactions"], "edge": ["nodes"], "graph": ["nodes", "edges"], "system": ["network"], "script": ["system", "t_sample"],
             "unitssystem": ["space", "time", "quantity"], "unitarray": ["value", "units"]}


def missing_key_rejected(k, j):
    name, from_d, base, accepted = reader(k)
    keys = MANDATORY.get(name, [])
    if not keys:
        return True
    d = dict(base)
    d.pop(keys[_R[j] % len(keys)])
    return raises(lambda: from_d(d))


# ---- dimension of dimensioned fields -------------------------------------------------------------------------------
FIELDS = {
    "density": ((-3, 0, 1), lambda q: Species("A", density=q)), "D": ((2, -1, 0), lambda q: Species("A", D=q)),
    "density_env": ((-3, 0, 1), lambda q: Species("A", density={"e0": q})), "D_env": ((2, -1, 0), lambda q: Species("A", D={"e0": 1.0, "default": q})),
    "cell_vol": ((3, 0, 0), lambda q: RDGridSpace(cell_vol=q)), "node_volume": ((3, 0, 0), lambda q: RDGraphSpaceNode(volume=q)),
    "edge_surface": ((2, 0, 0), lambda q: RDGraphSpaceEdge(0, 1, surface=q)), "edge_distance": ((1, 0, 0), lambda q: RDGraphSpaceEdge(0, 1, distance=q)),
    "time_step": ((0, 1, 0), lambda q: RDScript(mk_system(0, 0, 0), [0, 1], time_step=q)), "t_max": ((0, 1, 0), lambda q: RDScript(mk_system(0, 0, 0), [0, 1], t_max=q)),
    "sampling_interval": ((0, 1, 0), lambda q: RDScript(mk_system(0, 0, 0), [0, 1], sampling_interval=q)),
    "t_sample": ((0, 1, 0), lambda q: RDScript(mk_system(0, 0, 0), UnitArray([0.0, 1.0], q.units))),
    "state": ((0, 0, 1), lambda q: RDSystem(mk_network(0, 0), mk_grid(0, 2, 1, 1, 0, 0, 0), state=UnitArray([1.0] * 6, q.units))),
    "set_state": ((0, 0, 1), lambda q: mk_system(0, 0, 0).set_state(0, 0, q)),
    # array fields given as a plain LIST holding a quantity (with numbers and a correct quantity around it)
    "t_sample_list": ((0, 1, 0), lambda q: RDScript(mk_system(0, 0, 0), [UnitValue(0.0, "s"), q, 1.0e9])),
    "state_list": ((0, 0, 1), lambda q: RDSystem(mk_network(0, 0), mk_grid(0, 2, 1, 1, 0, 0, 0), state=[1.0, q, 0, UnitValue(2, "molecule"), 0, 0])),
    "unitarray_list": ((2, -1, 0), lambda q: UnitArray([q, 1.0, UnitValue(1.0, Units(SYS["A"], UnitsDimensions(2, -1, 0)))], Units(SYS["A"], UnitsDimensions(2, -1, 0)))),
}


def wrong_dimension_rejected(field, s, t, q):
    want, build = FIELDS[field]
    # the quantity written in a foreign units system, in the default one (the receiving object's own: no scaling needed) and in an SI-like one
    for k in ("B", "A", "G"):
        v = UnitValue(1.5, Units(SYS[k], UnitsDimensions(s, t, q)))
        if raises(lambda: build(v)) != ((s, t, q) != want):
            return False
    return True


def bad_symbol_rejected(kind, sym):
    if sym in _units_labels_dict[kind]:
        return True
    kw = {"space": "µm", "time": "s", "quantity": "molecule"}
    kw[kind] = sym
    return raises(lambda: UnitsSystem(**kw)) and raises(lambda: unitssystem_from_dict(kw)) and raises(lambda: RDGridSpace(units_system=kw))


def nonpositive_size_rejected(w, h, d):
    if w >= 1 and h >= 1 and d >= 1:
        return not raises(lambda: RDGridSpace(w=w, h=h, d=d))
    return raises(lambda: RDGridSpace(w=w, h=h, d=d))


def cell_env_length_rejected(n):
    if n == 6:
        return not raises(lambda: RDGridSpace(w=3, h=2, d=1, cell_env=[0] * n))
    return raises(lambda: RDGridSpace(w=3, h=2, d=1, cell_env=[0] * n))


def env_index_rejected(kind, e, explicit_state):
    """an environment index outside [0, n_env) - too large OR negative - must be refused when the system is built / used"""
    net = mk_network(0, 0)            # two environments
    def build():
        if kind == "grid":
            space = RDGridSpace(w=2, h=1, d=1, cell_env=[0, e], cell_vol=8.0)
        else:
            space = RDGraphSpace(nodes=[RDGraphSpaceNode(8.0, 0), RDGraphSpaceNode(1.0, e)], edges=[RDGraphSpaceEdge(0, 1)])
        # explicit_state: state AND chemostat map given (nothing is generated from the environments, so only a check can refuse)
        sysm = RDSystem(net, space, state=[1.0] * 6 if explicit_state else None, chemostats=[0] * 6 if explicit_state else None)
        return sysm
    if 0 <= e <= 1:
        return not raises(lambda: kinetics.compute_dstatedt(build()))
    # refused when the system is BUILT (the marshalling layer hands the environment array to the native engine unchecked),
    # also through the dictionary reader
    if not raises(build):
        return False
    ok = rdsystem_to_dict(RDSystem(net, RDGridSpace(w=2, h=1, d=1, cell_env=[0, 1], cell_vol=8.0), state=[1.0] * 6, chemostats=[0] * 6))
    if kind == "grid":
        ok["space"]["cell_env"] = [0, e]
        return raises(lambda: rdsystem_from_dict(ok))
    return True


def bad_choice_rejected(what, text):
    ok_sets = {"bc": ["reflecting", "periodical"], "axis": ["x", "y", "z"], "policy": ["on_t_sample", "on_iteration", "on_interval", "no_sampling"], "isp": ["auto", "none", "Poisson", "redist"]}
    if text in ok_sets[what]:
        return True
    if what == "bc":
        return raises(lambda: RDGridSpace(boundary_conditions={"x": text}))
    if what == "axis":
        return raises(lambda: RDGridSpace(boundary_conditions={text: "periodical"}))
    if what == "policy":
        return raises(lambda: RDScript(mk_system(0, 0, 0), [0, 1], sampling_policy=text))
    return raises(lambda: RDScript(mk_system(0, 0, 0), [0, 1], init_state_processing=text))


def environments_rejected(which):
    """empty environment list, the reserved name 'default', non-string names: refused whatever container carries the list
    (list, tuple, numpy array), through the constructor and through the setter; valid lists accepted"""
    sp, rs = [Species("A")], []
    bad = [[], ["a", "default"], [1], ["default"], ["a", 2.5, "b"]]
    forms = [list, tuple, lambda v: np.array(v, dtype=object)]
    if which < len(bad):
        for f in forms:
            v = f(bad[which])
            if not raises(lambda: RDNetwork(sp, rs, environments=v)):
                return False
            net = RDNetwork(sp, rs, environments=["a", "b"])

            def setit():
                net.environments = v
            if not raises(setit):
                return False
            if list(net.environments) != ["a", "b"]:
                return False          # a refused assignment leaves the network as it was
        return True
    return all(not raises(lambda: RDNetwork(sp, rs, environments=f(["a", "b"]))) for f in forms)


def position_rejected(kind, form, i, x, y, z):
    """out-of-range positions raise in every accessor, and the state / chemostat arrays are unchanged afterwards"""
    if kind == "grid":
        global _G321
        try:
            sysm = _G321.copy()
        except NameError:
            net = mk_network(0, 0)
            _G321 = RDSystem(net, RDGridSpace(w=3, h=2, d=1, cell_env=[0, 1, 0, 1, 0, 1], cell_vol=8.0), state=[1.0 + 0.5 * k for k in range(18)], chemostats=[k % 2 for k in range(18)])
            sysm = _G321.copy()
    else:
        sysm = mk_system(0, 1, 0)
    n = sysm.space.size()
    if kind == "grid":
        w, h, d = sysm.space.w, sysm.space.h, sysm.space.d
        inside = (0 <= i < n) if form == "index" else (0 <= x < w and 0 <= y < h and 0 <= z < d)
        pos = i if form == "index" else ((x, y, z) if form == "tuple" else Coord(x, y, z))
    else:
        inside = 0 <= i < n
        pos = i
    if inside:
        return True
    s0, c0 = [float(v) for v in sysm.state.value], [int(c) for c in sysm.chemostats]
    ok = all(raises(f) for f in (lambda: sysm.get_state(0, pos), lambda: sysm.set_state(0, pos, 5.0), lambda: sysm.get_chemostat(1, pos), lambda: sysm.set_chemostat(1, pos, 1),
                                 lambda: sysm.get_state_index(0, pos), lambda: sysm.space.get_cell_env(pos), lambda: sysm.space.get_cell_vol(pos) if kind != "grid" else sysm.get_state_index(2, pos),
                                 lambda: kinetics.compute_dspeciesdt(sysm, 0, pos), lambda: kinetics.compute_reaction_rates(sysm, 0, pos), lambda: kinetics.compute_diffusion_rates(sysm, 0, pos, 0),
                                 lambda: kinetics.compute_diffusion_rates(sysm, 0, 0, pos), lambda: sysm.apply_reaction(0, position=pos)))
    return ok and [float(v) for v in sysm.state.value] == s0 and [int(c) for c in sysm.chemostats] == c0


def unknown_species_rejected(kind, sp):
    sysm = mk_system(0, 0, 0)
    who = {"index": sp, "label": "Z%d" % sp, "object": Species("Q")}[kind]
    if kind == "index" and 0 <= sp < 3:
        return True
    s0 = [float(v) for v in sysm.state.value]
    ok = all(raises(f) for f in (lambda: sysm.get_state(who, 0), lambda: sysm.set_state(who, 0, 1.0), lambda: sysm.get_state_index(who, 0), lambda: sysm.set_chemostat(who, 0, 1),
                                 lambda: kinetics.compute_dspeciesdt(sysm, who, 0), lambda: kinetics.compute_diffusion_rates(sysm, who, 0, 1)))
    return ok and [float(v) for v in sysm.state.value] == s0


def wrong_length_rejected(what, n):
    net, space = mk_network(0, 0), mk_grid(0, 2, 1, 1, 0, 0, 0)     # 3 species x 2 cells
    if what == "state":
        f = lambda: RDSystem(net, space, state=[1.0] * n)
    elif what == "state_array":
        f = lambda: RDSystem(net, space, state=UnitArray([1.0] * n, "molecule"))
    elif what == "chemostats":
        f = lambda: RDSystem(net, space, chemostats=[0] * n)
    else:
        def f():
            s = RDSystem(net, space)
            s.state = [2.0] * n
    return (not raises(f)) if n == 6 else raises(f)


def index_map_rejected(a, b, c, d, e, f):
    """a coarse-graining map that violates the documented rules is refused by every entry point (3x2x1 grid, environments 0 0 0 1 1 1 and 0 1 0 1 0 1)"""
    from harness import c16lib
    from strengths.coarsegrain import coarsegrain_grid, coarsegrain_system, check_index_map_validity
    im = [a, b, c, d, e, f]
    for envs in ((0, 0, 0, 1, 1, 1), (0, 1, 0, 1, 0, 1), (1, 1, 0, 0, 1, 0)):
        if c16lib.valid((3, 2, 1), im, envs):
            continue
        sysm = c16lib.system((3, 2, 1), envs)
        if not raises(lambda: coarsegrain_system(sysm, list(im))):
            return False
        if not raises(lambda: coarsegrain_grid(sysm.space, list(im))):
            return False
    return True


def double_alias_rejected(k, g, a, b):
    """a dictionary holding TWO spellings of one field (canonical + alias, or two aliases, in either insertion order) is refused by the reader"""
    from vt.props.C12 import SP_SYN, RE_SYN, NET_SYN, GRID_SYN, NODE_SYN, SYS_SYN, SCR_SYN
    UNITS = ["units", "units_system", "units system", "u"]
    table = {"species": SP_SYN, "reaction": RE_SYN, "network": NET_SYN, "grid": GRID_SYN, "node": NODE_SYN, "edge": [["nodes"], ["surface"], ["distance"], UNITS],
             "graph": [["type"], ["nodes"], ["edges"], UNITS], "system": SYS_SYN, "script": SCR_SYN + [["init_state_processing", "init state processing"]]}
    name, from_d, base, accepted = reader(k)
    groups = table.get(name)
    if not groups:
        return True
    syn = groups[g % len(groups)]
    if len(syn) < 2:
        return True
    x, y = syn[a % len(syn)], syn[b % len(syn)]
    if x == y:
        return True
    key = next((s_ for s_ in syn if s_ in base), None)
    if key is None:
        return True
    d = {k_: v for k_, v in base.items() if k_ != key}
    d[x] = base[key]
    d[y] = base[key]
    return raises(lambda: from_d(d))


def undeclared_species_rejected(side, pos, form):
    """a network refuses a reaction that names a species it does not declare - as a reactant only, as a product only, or on both sides;
    in any reaction position; through the constructor and through the dictionary reader"""
    eqs = {0: ["X -> A", "A + X -> B", "2 X -> "], 1: ["A -> X", "A -> B + X", " -> X", "A -> 0 X + B"], 2: ["A + X -> X + B"]}[side]
    sp = [Species("A"), Species("B")]
    for eq in eqs:
        good = [Reaction("A -> B", kf=1.0), Reaction("B -> A", kf=1.0)]
        rs = good[:pos % 3] + [Reaction(eq, kf=1.0, kr=0)] + good[pos % 3:]
        if form == 0:
            if not raises(lambda: RDNetwork(species=sp, reactions=rs)):
                return False
        else:
            if "0 X" in eq:
                continue           # serialising drops a term with coefficient 0: the dictionary no longer names X
            d = rdnetwork_to_dict(RDNetwork(species=sp + [Species("X")], reactions=rs))
            d["species"] = [x for x in d["species"] if x.get("label", x.get("l")) != "X"]
            if not raises(lambda: rdnetwork_from_dict(d)):
                return False
    return True
