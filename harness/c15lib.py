"""Static helpers of the C15 harness: grid geometry (Python side)."""
from strengths import *
from strengths.rdgridspace import RDGridSpace
from harness.c05lib import raises

BCS = [{}, {"x": "periodical"}, {"y": "periodical"}, {"z": "periodical"}, {"x": "periodical", "y": "periodical"},
       {"x": "periodical", "z": "periodical"}, {"y": "periodical", "z": "periodical"}, {"x": "periodical", "y": "periodical", "z": "periodical"}]
_G = {}


def grid(w, h, d, bc):
    k = (w, h, d, bc)
    if k not in _G:
        _G[k] = RDGridSpace(w=w, h=h, d=d, cell_env=0, cell_vol=8, boundary_conditions=dict(BCS[bc]))
    return _G[k]


class Coord:
    def __init__(self, x=0, y=0, z=0):
        self.x, self.y, self.z = x, y, z


def spec_neighbors(w, h, d, bc, i, j):
    """specification: distinct cells, exactly one axis differs, by 1 or (periodic axis) by L-1"""
    if i == j:
        return False
    ci = (i % w, (i // w) % h, i // (w * h))
    cj = (j % w, (j // w) % h, j // (w * h))
    per = BCS[bc]
    diff = [(a, abs(ci[a] - cj[a])) for a in range(3) if ci[a] != cj[a]]
    if len(diff) != 1:
        return False
    a, dl = diff[0]
    L = (w, h, d)[a]
    return dl == 1 or (per.get("xyz"[a]) == "periodical" and dl == L - 1)


def bijection(w, h, d, bc, i):
    g = grid(w, h, d, bc)
    c = g.get_cell_coordinates(i)
    x, y, z = c
    if not (0 <= x < w and 0 <= y < h and 0 <= z < d):
        return False
    if i != z * w * h + y * w + x:
        return False
    o = g.get_cell_coordinates(i, Coord)
    if (o.x, o.y, o.z) != (x, y, z):
        return False
    return g.get_cell_index((x, y, z)) == i and g.get_cell_index(Coord(x, y, z)) == i and g.get_cell_index(i) == i and g.get_cell_index([x, y, z]) == i


def coords_to_index(w, h, d, bc, x, y, z):
    g = grid(w, h, d, bc)
    # a point inside the cell (fractional coordinates) is that cell, axis by axis, in every coordinate form
    want = z * w * h + y * w + x
    fr = (x + 0.5, y + 0.25, z + 0.75)
    if g.get_cell_index(fr) != want or g.get_cell_index(list(fr)) != want or g.get_cell_index(Coord(*fr)) != want or not g.is_within_bounds(fr):
        return False
    i = g.get_cell_index((x, y, z))
    return i == z * w * h + y * w + x and g.get_cell_coordinates(i) == (x, y, z) and g.is_within_bounds((x, y, z)) and g.is_within_bounds(i)


def index_rejected(w, h, d, bc, i):
    """every linear index outside [0, size) is rejected by every accessor"""
    g = grid(w, h, d, bc)
    return (not g.is_within_bounds(i)) and raises(lambda: g.get_cell_index(i)) and raises(lambda: g.get_cell_coordinates(i)) \
        and raises(lambda: g.get_cell_env(i)) and raises(lambda: g.are_neighbors(i, 0)) and raises(lambda: g.are_neighbors(0, i)) and raises(lambda: g.get_neighbors(i))


def coords_rejected(w, h, d, bc, x, y, z):
    g = grid(w, h, d, bc)
    return (not g.is_within_bounds((x, y, z))) and raises(lambda: g.get_cell_index((x, y, z))) and raises(lambda: g.get_cell_index(Coord(x, y, z))) \
        and raises(lambda: g.get_cell_env((x, y, z))) and raises(lambda: g.are_neighbors((x, y, z), 0)) and raises(lambda: g.get_neighbors((x, y, z)))


_KS = {}


def neighbor_relation(w, h, d, bc, i, j):
    g = grid(w, h, d, bc)
    a, b = g.are_neighbors(i, j), g.are_neighbors(j, i)
    s = spec_neighbors(w, h, d, bc, i, j)
    if not (a == b and a == s):
        return False
    # the kinetics functions use the same relation: a diffusion rate between two distinct cells exists exactly when they are neighbours
    if i != j:
        from strengths import kinetics
        key = (w, h, d, bc)
        if key not in _KS:
            _KS[key] = RDSystem(RDNetwork(species=[Species("A", D=1.5, density=1)], reactions=[]), g)
        if raises(lambda: kinetics.compute_diffusion_rates(_KS[key], "A", i, j)) != (not s):
            return False
    return True


def neighbor_query(w, h, d, bc, i):
    g = grid(w, h, d, bc)
    got = g.get_neighbors(i)
    want = [j for j in range(w * h * d) if spec_neighbors(w, h, d, bc, i, j)]
    return sorted(set(got)) == want


_GG = {}


def graph_of(w, h, d, bc):
    from strengths.coarsegrain import grid_to_graph
    k = (w, h, d, bc)
    if k not in _GG:
        _GG[k] = grid_to_graph(grid(w, h, d, bc))
    return _GG[k]


def graph_adjacency(w, h, d, bc, i, j):
    """on grid_to_graph(grid): the pairwise neighbour test, the edge lookup (both argument orders) and the neighbour query agree
    with each other and with the grid's neighbour relation; the contact of two neighbours has the surface of a cell face"""
    g, gr = grid(w, h, d, bc), graph_of(w, h, d, bc)
    if i == j:
        return True
    s = spec_neighbors(w, h, d, bc, i, j)
    e1, e2 = gr.get_edge(i, j), gr.get_edge(j, i)
    if (e1 is None) != (not s) or (e2 is None) != (not s):
        return False
    if gr.are_neighbors(i, j) != s or gr.are_neighbors(j, i) != s:
        return False
    if (j in gr.get_neighbors(i)) != s or (i in gr.get_neighbors(j)) != s:
        return False
    from strengths import kinetics
    key = ("gsys", w, h, d, bc)
    if key not in _GG:
        _GG[key] = RDSystem(RDNetwork(species=[Species("A", D=1.5, density=1)], reactions=[]), gr)
    if raises(lambda: kinetics.compute_diffusion_rates(_GG[key], "A", i, j)) != (not s):
        return False
    if s:
        if e1 is not e2 and {e1.i, e1.j} != {e2.i, e2.j}:
            return False
        if abs(float(e1.surface.value) - 4.0) > 1e-9 or abs(float(e1.distance.value) - 2.0) > 1e-9:      # cell volume 8 -> edge 2, face 4
            return False
    return True


def graph_kinetics(w, h, d, bc, i):
    """the Python rate law on grid_to_graph(grid) equals the one on the grid (pure diffusion, one-hot state in cell i)"""
    from strengths import kinetics
    if any(BCS[bc].get(a) == "periodical" and L == 2 for a, L in zip("xyz", (w, h, d))):
        return True     # outside the property: the graph then has parallel edges, which the Python functions do not support
    key = ("sys", w, h, d, bc)
    if key not in _GG:
        net = RDNetwork(species=[Species("A", D=1.5, density=0)], reactions=[])
        _GG[key] = (RDSystem(net, grid(w, h, d, bc)), RDSystem(net, graph_of(w, h, d, bc)))
    s1, s2 = _GG[key]
    n = w * h * d
    st = [0.0] * n
    st[i] = 1000.0
    s1.state = list(st)
    s2.state = list(st)
    a = [float(v) for v in kinetics.compute_dstatedt(s1).value]
    b = [float(v) for v in kinetics.compute_dstatedt(s2).value]
    return all(abs(x - y) <= 1e-9 * (1 + abs(x)) for x, y in zip(a, b))


def abi_boundary(w, h, d, bc):
    """what LibRDEngine hands to the native engine for a grid: the three sizes and, per axis, that axis' own boundary condition"""
    from strengths.librdengine import LibRDEngine
    from strengths.rdscript import RDScript
    from vt.glue import RecLib, GRID_NAMES
    net = RDNetwork(species=[Species("A", D=1.5, density=1)], reactions=[])
    sysm = RDSystem(net, grid(w, h, d, bc))
    for option in ("euler", "gillespie"):
        lib = RecLib()
        e = LibRDEngine(lib, option=option, requires_molecules=option != "euler")
        e.setup(RDScript(sysm, [0, 1.0]))
        name, vals = [c for c in lib.log if c[0].startswith("engineexport_initialize")][0]
        a = dict(zip(GRID_NAMES, vals))
        want = {ax: BCS[bc].get(ax, "reflecting") for ax in "xyz"}
        if (a["w"], a["h"], a["d"]) != (w, h, d) or (a["bcx"], a["bcy"], a["bcz"]) != (want["x"], want["y"], want["z"]):
            return False
    return True


def bc_switch(w, h, d, bc1, bc2, i):
    """the neighbour relation follows the CURRENT boundary setting: a grid queried under one setting and then switched to another
    (in place, or on a copy) answers like a grid built with the new setting"""
    def full(bc):
        return {a: BCS[bc].get(a, "reflecting") for a in "xyz"}
    n = w * h * d
    g = RDGridSpace(w=w, h=h, d=d, cell_env=0, cell_vol=8, boundary_conditions=dict(BCS[bc1]))
    g.get_neighbors(i)
    [g.are_neighbors(i, j) for j in range(n) if j != i]
    c = g.copy()
    g.set_boundary_conditions(full(bc2))
    c.set_boundary_conditions(full(bc2))
    for sp in (g, c):
        for k in range(n):
            want = [j for j in range(n) if spec_neighbors(w, h, d, bc2, k, j)]
            if sorted(set(sp.get_neighbors(k))) != want:
                return False
            if any(sp.are_neighbors(k, j) != spec_neighbors(w, h, d, bc2, k, j) for j in range(n) if j != k):
                return False
    return True


def grid_kinetics_ref(w, h, d, bc, i):
    """the Python rate of change on the grid equals the law summed over the SIX directions of the specification neighbour relation
    (a periodic axis of length 2 gives the same neighbour in both directions: two contacts, twice the flux)"""
    from strengths import kinetics
    from vt.oracle import grid_neighbor
    key = ("kref", w, h, d, bc)
    if key not in _GG:
        _GG[key] = RDSystem(RDNetwork(species=[Species("A", D=1.5, density=0)], reactions=[]), grid(w, h, d, bc))
    s1 = _GG[key]
    n = w * h * d
    x = [0.0] * n
    x[i] = 1000.0
    s1.state = list(x)
    got = [float(v) for v in kinetics.compute_dstatedt(s1).value]
    k = 1.5 / 4.0            # D / h^2 with h = 2 (cell volume 8)
    want = [0.0] * n
    for c in range(n):
        for dr in range(6):
            nb = grid_neighbor(s1.space, c, dr)
            if nb is not None:
                want[c] += k * (x[nb] - x[c])
    return all(abs(a - b) <= 1e-9 * (1 + abs(b)) for a, b in zip(got, want))


def _space_view(sp):
    """everything the geometry queries of a space answer, in plain numbers"""
    n = sp.size()
    va, ea = sp.get_cell_vol_array(), sp.get_cell_env_array()
    out = {"n": n, "vol": [float(v) for v in va.value], "vol_units": str(va.units), "env": [int(e) for e in ea],
           "vol1": [float(sp.get_cell_vol(i).value) for i in range(n)], "env1": [int(sp.get_cell_env(i)) for i in range(n)],
           "nb": [sorted(int(j) for j in sp.get_neighbors(i)) for i in range(n)],
           "are": [[bool(sp.are_neighbors(i, j)) for j in range(n) if j != i] for i in range(n)]}
    if hasattr(sp, "get_edge"):
        ed = []
        for i in range(n):
            for j in out["nb"][i]:
                e = sp.get_edge(i, j)
                ed.append((i, j, float(e.surface.value), str(e.surface.units), float(e.distance.value), str(e.distance.units)))
        out["edges"] = ed
    return out


def space_after_edit(kind, how):
    """A space object that has already answered every geometry query is EDITED (grid: cell volume, environment map, units system,
    boundary conditions; graph: a node's volume / environment, an edge's surface / distance, several of them, the
    units system) and must then answer like a space built afresh with the edited content."""
    from strengths.rdgraphspace import RDGraphSpaceNode as N_, RDGraphSpaceEdge as E_
    from strengths.units import UnitsSystem
    other = UnitsSystem("nm", "ms", "mmol")
    if kind == 0:
        g = RDGridSpace(w=3, h=2, d=1, cell_env=[0, 1, 0, 1, 1, 0], cell_vol=8, boundary_conditions={"x": "periodical"})
        _space_view(g)
        env, vol, bc, us = [0, 1, 0, 1, 1, 0], 8, {"x": "periodical"}, UnitsSystem()
        if how == 0:
            vol = 27.0
            g.cell_vol = vol
        elif how == 1:
            env = [1, 1, 0, 0, 1, 0]
            g.cell_env = list(env)
        elif how == 2:
            us = other                       # the default for LATER bare numbers changes; the stored volume keeps its own units
            vol = "8 µm3"
            g.units_system = other.copy()
        elif how == 3:
            bc = {"x": "reflecting", "y": "periodical", "z": "reflecting"}
            g.set_boundary_conditions(dict(bc))
        else:
            vol, env = 5.0, [0, 0, 0, 1, 1, 1]
            g.cell_env = list(env)
            g.cell_vol = vol
        fresh = RDGridSpace(w=3, h=2, d=1, cell_env=list(env), cell_vol=vol, boundary_conditions=dict(bc), units_system=us.copy())
        return _space_view(g) == _space_view(fresh)
    nodes = [[2.0, 0], [3.0, 1], [5.0, 0], [7.0, 1]]
    edges = [[0, 1, 2.0, 3.0], [1, 2, 5.0, 7.0], [2, 3, 1.5, 2.5]]
    us = UnitsSystem()
    g = RDGraphSpace(nodes=[N_(v, e) for v, e in nodes], edges=[E_(*e) for e in edges])
    _space_view(g)
    if how == 0:
        nodes[2][0] = 11.0
        g.nodes[2].volume = 11.0
    elif how == 1:
        nodes[1][1] = 0
        g.nodes[1].environment = 0
    elif how == 2:
        edges[1][2], edges[1][3] = 13.0, 17.0
        g.edges[1].surface = 13.0
        g.edges[1].distance = 17.0
    elif how == 3:
        nodes[0][0], nodes[3][1], edges[0][2], edges[2][3] = 19.0, 0, 4.0, 4.5
        g.nodes[0].volume = 19.0
        g.nodes[3].environment = 0
        g.edges[0].surface = 4.0
        g.edges[2].distance = 4.5
    else:
        us = other
        g.units_system = other.copy()
    fresh = RDGraphSpace(nodes=[N_(v, e) for v, e in nodes], edges=[E_(*e) for e in edges], units_system=us.copy())
    return _space_view(g) == _space_view(fresh)
