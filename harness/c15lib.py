"""Static helpers of the C15 harness: grid geometry (Python side)."""
from strengths import *
from strengths.rdgridspace import RDGridSpace
from harness.c05lib import raises

BCS = [{}, {"x": "periodical"}, {"y": "periodical"}, {"z": "periodical"}, {"x": "periodical", "y": "periodical"},
       {"x": "periodical", "z": "periodical"}, {"y": "periodical", "z": "periodical"}, {"x": "periodical", "y": "periodical", "z": "periodical"}]
_G = {}


def grid(w, h, d, bc):
    k = (w, h, d, bc)
    if k not in _G:
        _G[k] = RDGridSpace(w=w, h=h, d=d, cell_env=0, cell_vol=8, boundary_conditions=dict(BCS[bc]))
    return _G[k]


class Coord:
    def __init__(self, x=0, y=0, z=0):
        self.x, self.y, self.z = x, y, z


def spec_neighbors(w, h, d, bc, i, j):
    """specification: distinct cells, exactly one axis differs, by 1 or (periodic axis) by L-1"""
    if i == j:
        return False
    ci = (i % w, (i // w) % h, i // (w * h))
    cj = (j % w, (j // w) % h, j // (w * h))
    per = BCS[bc]
    diff = [(a, abs(ci[a] - cj[a])) for a in range(3) if ci[a] != cj[a]]
    if len(diff) != 1:
        return False
    a, dl = diff[0]
    L = (w, h, d)[a]
    return dl == 1 or (per.get("xyz"[a]) == "periodical" and dl == L - 1)


def bijection(w, h, d, bc, i):
    g = grid(w, h, d, bc)
    c = g.get_cell_coordinates(i)
    x, y, z = c
    if not (0 <= x < w and 0 <= y < h and 0 <= z < d):
        return False
    if i != z * w * h + y * w + x:
        return False
    o = g.get_cell_coordinates(i, Coord)
    if (o.x, o.y, o.z) != (x, y, z):
        return False
    return g.get_cell_index((x, y, z)) == i and g.get_cell_index(Coord(x, y, z)) == i and g.get_cell_index(i) == i and g.get_cell_index([x, y, z]) == i


def coords_to_index(w, h, d, bc, x, y, z):
    g = grid(w, h, d, bc)
    i = g.get_cell_index((x, y, z))
    return i == z * w * h + y * w + x and g.get_cell_coordinates(i) == (x, y, z) and g.is_within_bounds((x, y, z)) and g.is_within_bounds(i)


def index_rejected(w, h, d, bc, i):
    """every linear index outside [0, size) is rejected by every accessor"""
    g = grid(w, h, d, bc)
    return (not g.is_within_bounds(i)) and raises(lambda: g.get_cell_index(i)) and raises(lambda: g.get_cell_coordinates(i)) \
        and raises(lambda: g.get_cell_env(i)) and raises(lambda: g.are_neighbors(i, 0)) and raises(lambda: g.are_neighbors(0, i)) and raises(lambda: g.get_neighbors(i))


def coords_rejected(w, h, d, bc, x, y, z):
    g = grid(w, h, d, bc)
    return (not g.is_within_bounds((x, y, z))) and raises(lambda: g.get_cell_index((x, y, z))) and raises(lambda: g.get_cell_index(Coord(x, y, z))) \
        and raises(lambda: g.get_cell_env((x, y, z))) and raises(lambda: g.are_neighbors((x, y, z), 0)) and raises(lambda: g.get_neighbors((x, y, z)))


def neighbor_relation(w, h, d, bc, i, j):
    g = grid(w, h, d, bc)
    a, b = g.are_neighbors(i, j), g.are_neighbors(j, i)
    s = spec_neighbors(w, h, d, bc, i, j)
    return a == b and a == s


def neighbor_query(w, h, d, bc, i):
    g = grid(w, h, d, bc)
    got = g.get_neighbors(i)
    want = [j for j in range(w * h * d) if spec_neighbors(w, h, d, bc, i, j)]
    return sorted(set(got)) == want
