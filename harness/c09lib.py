"""Static helpers of the C09 Python leg: what the sampling parameters of a script mean when they reach the engine."""
from strengths import *
from strengths.units import UnitValue, UnitArray, Units, UnitsSystem, UnitsDimensions
from strengths.rdscript import RDScript, rdscript_to_dict, rdscript_from_dict
from strengths.librdengine import LibRDEngine
from harness.c05lib import SYS, si
from harness.c12lib import mk_system
from vt.glue import RecLib, GRID_NAMES, GRAPH_NAMES


def _abi(sc, option):
    lib = RecLib()
    e = LibRDEngine(lib, option=option, requires_molecules=option != "euler")
    e.setup(sc)
    name, vals = [c for c in lib.log if c[0].startswith("engineexport_initialize")][0]
    return dict(zip(GRID_NAMES if name.endswith("grid") else GRAPH_NAMES, vals))


def default_tmax_follows(edit, f_space, opt):
    """t_max left at its default is the LAST requested time of the script as it is when the simulation is set up: after the
    sample times are replaced (longer / shorter list) or edited in place, the run ends at the new last time; an explicit t_max stays"""
    option = ["euler", "tauleap", "gillespie"][opt]
    sc = RDScript(mk_system(0, f_space, 0), [0.0, 1.0, 2.0], time_step=0.25)
    ex = RDScript(mk_system(0, f_space, 0), [0.0, 1.0, 2.0], time_step=0.25, t_max=7.0)
    if edit == 0:
        new = [0.0, 1.0, 2.0, 3.5, 5.0]
    elif edit == 1:
        new = [0.0, 0.5]
    elif edit == 2:
        new = [0.0, 1.0, 9.0]
    else:
        new = None
    for s_ in (sc, ex):
        if new is not None:
            s_.t_sample = list(new)
        else:
            s_.t_sample.value[-1] = 4.0          # in-place edit of the stored array
    last = float(sc.t_sample.value[-1])
    if float(sc.t_max.value) != last or float(ex.t_max.value) != 7.0:
        return False
    a, b = _abi(sc, option), _abi(ex, option)
    if abs(a["t_max"] - last) > 1e-12 or abs(b["t_max"] - 7.0) > 1e-12 or list(a["t_sample"]) != [float(v) for v in sc.t_sample.value] or a["n_sample"] != len(sc.t_sample):
        return False
    back = rdscript_from_dict(rdscript_to_dict(sc))
    return float(back.t_max.value) == last and sc.copy().t_max.value == last


def step_count_in_units(u, g, opt, tu):
    """t_max, time step and sampling interval written with their own time unit under a script in another units system: what reaches
    the native engine stands in the same ratios (t_max / dt = 20 steps, interval / dt = 4 steps) - grid and graph"""
    from harness.c04lib import KEYS
    option = ["euler", "tauleap", "gillespie"][opt % 3]
    unit, fac = [("ms", 1e-3), ("min", 60.0), ("h", 3600.0), ("s", 1.0)][tu % 4]
    sc = RDScript(mk_system(0, g, 0), [0.0], time_step="%r %s" % (0.5 / fac, unit), t_max="%r %s" % (10.0 / fac, unit), sampling_policy="on_interval",
                  sampling_interval="%r %s" % (2.0 / fac, unit), units_system=SYS[KEYS[u % 11]])
    a = _abi(sc, option)
    if not (abs(a["t_max"] / a["dt"] - 20.0) <= 1e-9 and abs(a["interval"] / a["dt"] - 4.0) <= 1e-9):
        return False
    # requested sample times carrying their own unit (array with units / list of quantities): they reach the engine on the same scale as the time step
    for form in (0, 1):
        req = UnitArray([0.0, 2.0 / fac, 5.0 / fac], unit) if form == 0 else [UnitValue(0.0, unit), UnitValue(2.0 / fac, unit), UnitValue(5.0 / fac, unit)]
        sc2 = RDScript(mk_system(0, g, 0), req, time_step="%r %s" % (0.5 / fac, unit), units_system=SYS[KEYS[u % 11]])
        b = _abi(sc2, option)
        if len(b["t_sample"]) != 3 or any(abs(t / b["dt"] - w) > 1e-9 for t, w in zip(b["t_sample"], [0.0, 4.0, 10.0])) or abs(b["t_max"] / b["dt"] - 10.0) > 1e-9:
            return False
    return True


def wrapper_records_nothing_itself(opt, g, pol, first):
    """What is recorded is decided by the engine's sampling policy alone: the wrapper asks for a record only when the USER calls
    sample(). Setting an engine up (requested list starting at 0 or after 0, any policy), iterating and running make no
    engineexport_sample call; one user sample() makes exactly one."""
    option = ["euler", "tauleap", "gillespie"][opt]
    policy = ["on_t_sample", "on_iteration", "on_interval", "no_sampling"][pol]
    lib = RecLib()
    e = LibRDEngine(lib, option=option, requires_molecules=option != "euler")
    ts = [0.0, 1.0, 2.0] if first == 0 else [1.0, 2.0, 3.0]
    sc = RDScript(mk_system(0, g, 0), ts, time_step=0.25, sampling_policy=policy, sampling_interval=0.5)
    e.setup(sc)
    names = [c[0] for c in lib.log]
    # exactly one initialize call of the right kind, and no call that records or advances (queries and a release of a previous
    # simulation are the wrapper's business)
    if [n_ for n_ in names if n_.startswith("engineexport_initialize")] != ["engineexport_initialize_graph" if g else "engineexport_initialize_grid"]:
        return False
    if any(n_ in ("engineexport_sample", "engineexport_iterate", "engineexport_iterate_n", "engineexport_run") for n_ in names):
        return False
    e.iterate()
    e.iterate_n(2)
    e.run(0)
    if any(c[0] == "engineexport_sample" for c in lib.log):
        return False
    e.sample()
    return sum(1 for c in lib.log if c[0] == "engineexport_sample") == 1
